(* Proofs about Model/Types.v (C19). *)
From Coq Require Import List Ascii String Bool Arith ZArith Lia Permutation.
From SV Require Import Lib.Str Model.Types.
Import ListNotations.

Lemma ascii_eqb_refl c : Ascii.eqb c c = true.
Proof. apply Ascii.eqb_refl. Qed.

Lemma str_eqb_refl s : str_eqb s s = true.
Proof. induction s as [|c r IH]; cbn; [reflexivity|]. now rewrite Ascii.eqb_refl, IH. Qed.

Lemma str_eqb_eq a b : str_eqb a b = true <-> a = b.
Proof.
  revert b; induction a as [|x a IH]; intros [|y b]; cbn; split; intro H; try easy.
  - apply andb_true_iff in H as [H1 H2]. apply Ascii.eqb_eq in H1. apply IH in H2. now subst.
  - inversion H; subst. now rewrite Ascii.eqb_refl, (proj2 (IH b) eq_refl).
Qed.

Lemma str_eqb_sym a b : str_eqb a b = str_eqb b a.
Proof.
  destruct (str_eqb a b) eqn:E.
  - apply str_eqb_eq in E; subst. now rewrite str_eqb_refl.
  - destruct (str_eqb b a) eqn:E'; [|reflexivity]. apply str_eqb_eq in E'; subst. now rewrite str_eqb_refl in E.
Qed.

(* ---------- round trip ---------- *)
Lemma mapM_map {X Y} (f : X -> res Y) (g : Y -> X) (l : list Y) :
  Forall (fun y => f (g y) = Ok y) l -> mapM f (map g l) = Ok l.
Proof. induction 1 as [|y r Hy _ IH]; cbn; [reflexivity|]. now rewrite Hy; cbn; rewrite IH. Qed.

Lemma lit_roundtrip l : jv_to_lit (lit_to_jv l) = Ok l.
Proof. now destruct l. Qed.

Definition depth_list (ts : list ty) : nat :=
  (fix mx (ts : list ty) : nat := match ts with [] => 0 | x :: r => Nat.max (depth x) (mx r) end) ts.

Lemma depth_list_cons x r : depth_list (x :: r) = Nat.max (depth x) (depth_list r).
Proof. reflexivity. Qed.

Lemma depth_in ts t : In t ts -> depth t <= depth_list ts.
Proof.
  induction ts as [|x r IH]; [easy|]. rewrite depth_list_cons. intros [->|H]; [apply Nat.le_max_l|]. specialize (IH H). etransitivity; [exact IH|apply Nat.le_max_r].
Qed.

Lemma to_dict_not_none t : to_dict t <> JNone.
Proof. destruct t; discriminate. Qed.

Ltac kind_step := cbn [str_eqb K list_ascii_of_string Ascii.eqb Bool.eqb andb].

Lemma list_roundtrip (fuel : nat) (ts : list ty) :
  Forall (fun t => forall fuel, depth t < fuel -> from_dict fuel (to_dict t) = Ok t) ts ->
  depth_list ts < fuel ->
  mapM (from_dict fuel) (map to_dict ts) = Ok ts.
Proof.
  intros HF Hd. apply mapM_map. rewrite Forall_forall in *. intros x Hx.
  apply HF; [assumption|]. pose proof (depth_in _ _ Hx). lia.
Qed.

Theorem roundtrip_fuel : forall t fuel, depth t < fuel -> from_dict fuel (to_dict t) = Ok t.
Proof.
  induction t as [| n q | n q ts IH | vs | b mn mx i1 i2 | ts IH | ts IH | k v IHk IHv | ps r IHp IHr | ts IH
                 | ls | t IH | ts IH | n | n u IH] using ty_ind';
    intros fuel Hf; (destruct fuel as [|f]; [lia|]); cbn [depth] in Hf; fold depth_list in *;
    unfold from_dict; fold from_dict; cbn [to_dict]; cbn -[from_dict mapM depth].
  - reflexivity.
  - reflexivity.
  - rewrite (list_roundtrip f ts IH) by (fold (depth_list ts) in Hf; lia). reflexivity.
  - rewrite (mapM_map jstr JStr); [reflexivity|]. apply Forall_forall; intros; reflexivity.
  - rewrite !lit_roundtrip. reflexivity.
  - rewrite (list_roundtrip f ts IH) by (fold (depth_list ts) in Hf; lia). reflexivity.
  - rewrite (list_roundtrip f ts IH) by (fold (depth_list ts) in Hf; lia). reflexivity.
  - rewrite IHk, IHv by lia. reflexivity.
  - fold (depth_list ps) in Hf. rewrite (list_roundtrip f ps IHp) by lia. cbn. rewrite IHr by lia. reflexivity.
  - rewrite (list_roundtrip f ts IH) by (fold (depth_list ts) in Hf; lia). reflexivity.
  - rewrite (mapM_map jv_to_lit lit_to_jv); [reflexivity|]. apply Forall_forall; intros; apply lit_roundtrip.
  - rewrite IH by lia. reflexivity.
  - rewrite (list_roundtrip f ts IH) by (fold (depth_list ts) in Hf; lia). reflexivity.
  - reflexivity.
  - assert (HI : from_dict f (to_dict u) = Ok u) by (apply IH; lia).
    destruct (to_dict u) eqn:E; try (now apply to_dict_not_none in E); rewrite HI; reflexivity.
Qed.

Theorem roundtrip : forall t, from_dict (S (depth t)) (to_dict t) = Ok t.
Proof. intro t. apply roundtrip_fuel. lia. Qed.

(* ---------- reflexivity ---------- *)
Lemma lit_eqb_refl l : lit_eqb l l = true.
Proof. destruct l as [s|z|b|r|]; cbn; auto using str_eqb_refl, Z.eqb_refl. now destruct b. Qed.

Lemma counter_eqb_refl {X} (eqb : X -> X -> bool) l : counter_eqb eqb l l = true.
Proof.
  unfold counter_eqb. rewrite Nat.eqb_refl. cbn. apply forallb_forall. intros x _. apply Nat.eqb_refl.
Qed.

Lemma bool_eqb_refl b : Bool.eqb b b = true. Proof. now destruct b. Qed.

Lemma strset_eqb_refl l : strset_eqb l l = true.
Proof.
  unfold strset_eqb.
  assert (H : forallb (fun x => mem_str x l) l = true).
  { induction l as [|y r IHl]; cbn; [reflexivity|]. rewrite str_eqb_refl. cbn.
    apply forallb_forall. intros x Hx. rewrite forallb_forall in IHl. rewrite (IHl x Hx). apply orb_true_r. }
  now rewrite H.
Qed.

Theorem py_eq_refl : forall t, py_eq t t = true.
Proof.
  induction t as [| n q | n q ts IH | vs | b mn mx i1 i2 | ts IH | ts IH | k v IHk IHv | ps r IHp IHr | ts IH
                 | ls | t IH | ts IH | n | n u IH] using ty_ind'; cbn [py_eq];
    rewrite ?counter_eqb_refl, ?str_eqb_refl, ?lit_eqb_refl, ?bool_eqb_refl; cbn [andb]; auto.
  - apply strset_eqb_refl.
  - destruct (lit_eqb mx _); reflexivity.
  - now rewrite IHk, IHv.
Qed.

(* ---------- order insensitivity of equality and hashing ---------- *)
Lemma count_pred_perm {X} (p : X -> bool) l l' : Permutation l l' -> count_pred p l = count_pred p l'.
Proof. induction 1; cbn; try lia. Qed.

Lemma counter_eqb_perm {X} (eqb : X -> X -> bool) l l' : Permutation l l' -> counter_eqb eqb l l' = true.
Proof.
  intro HP. unfold counter_eqb. rewrite (Permutation_length HP), Nat.eqb_refl. cbn.
  apply forallb_forall. intros x _. unfold count_of. rewrite (count_pred_perm _ _ _ HP). apply Nat.eqb_refl.
Qed.

Lemma hk_eqb_fro l l' :
  hk_eqb (HFro l) (HFro l') =
  Nat.eqb (List.length l) (List.length l') && forallb (fun x => Nat.eqb (count_pred (hk_eqb x) l) (count_pred (hk_eqb x) l')) l.
Proof. reflexivity. Qed.

Lemma hk_eqb_refl : forall h, hk_eqb h h = true.
Proof.
  fix IH 1. intros [s|z|r| |l|l].
  - apply str_eqb_refl.
  - apply Z.eqb_refl.
  - apply str_eqb_refl.
  - reflexivity.
  - cbn. induction l as [|x r IHl]; [reflexivity|]. now rewrite IH, IHl.
  - rewrite hk_eqb_fro, Nat.eqb_refl. cbn. apply forallb_forall. intros x _. apply Nat.eqb_refl.
Qed.

Lemma hk_fro_perm l l' : Permutation l l' -> hk_eqb (HFro l) (HFro l') = true.
Proof.
  intro HP. rewrite hk_eqb_fro, (Permutation_length HP), Nat.eqb_refl. cbn.
  apply forallb_forall. intros x _. rewrite (count_pred_perm _ _ _ HP). apply Nat.eqb_refl.
Qed.

(* lists whose elements are pairwise unequal (in both directions) *)
Inductive Distinct {T} (eqb : T -> T -> bool) : list T -> Prop :=
| Distinct_nil : Distinct eqb []
| Distinct_cons x r : (forall y, In y r -> eqb x y = false /\ eqb y x = false) -> Distinct eqb r -> Distinct eqb (x :: r).

Lemma Distinct_perm {T} (eqb : T -> T -> bool) l l' : Permutation l l' -> Distinct eqb l -> Distinct eqb l'.
Proof.
  induction 1 as [|x l l' HP IH|x y l|l l' l'' _ IH1 _ IH2]; intro HD.
  - constructor.
  - inversion HD as [|? ? Hx Hr]; subst. constructor; [|auto].
    intros y Hy. apply Hx. eapply Permutation_in; [symmetry; exact HP|exact Hy].
  - inversion HD as [|? ? Hy Hr]; subst. inversion Hr as [|? ? Hx Hl]; subst.
    constructor.
    + intros z [<-|Hz]; [destruct (Hy x (or_introl eq_refl)); auto|now apply Hx].
    + constructor; [|assumption]. intros z Hz. apply Hy. now right.
  - auto.
Qed.

Lemma nodup_by_distinct {T} (eqb : T -> T -> bool) l : Distinct eqb l -> nodup_by eqb l = l.
Proof.
  induction 1 as [|x r Hx _ IH]; cbn; [reflexivity|]. rewrite IH. f_equal.
  clear IH. induction r as [|y r IHr]; cbn; [reflexivity|].
  destruct (Hx y (or_introl eq_refl)) as [E _]. rewrite E. cbn. f_equal. apply IHr. intros z Hz. apply Hx. now right.
Qed.

Lemma Distinct_map_fst {T} (eqb : T -> T -> bool) (f : T -> hk) l :
  Distinct eqb l -> Distinct (fun a b : T * hk => eqb (fst a) (fst b)) (map (fun x => (x, f x)) l).
Proof.
  induction 1 as [|x r Hx _ IH]; cbn; constructor; [|exact IH].
  intros y Hy. apply in_map_iff in Hy as (z & <- & Hz). cbn. now apply Hx.
Qed.

Lemma keyed_nodup_distinct {T} (eqb : T -> T -> bool) (f : T -> hk) l :
  Distinct eqb l -> keyed_nodup eqb (map (fun x => (x, f x)) l) = map f l.
Proof.
  intro HD. unfold keyed_nodup. rewrite nodup_by_distinct by now apply Distinct_map_fst.
  rewrite map_map. reflexivity.
Qed.

(* the six sequence-like constructors *)
Inductive seq_ctor : (list ty -> ty) -> Prop :=
| sc_union : seq_ctor TUnion | sc_list : seq_ctor TList | sc_set : seq_ctor TSet | sc_tuple : seq_ctor TTuple
| sc_namedseq n q : seq_ctor (TNamedSeq n q).

(* order-insensitive equality for every element list; order-insensitive hashing shown here for lists of pairwise
   unequal elements (a frozenset keeps one representative per class of equal elements; that the representative's
   hash does not depend on the choice is the general equal-values-equal-hashes law, still to be proved) *)
Theorem perm_eq : forall C ts ts', seq_ctor C -> Permutation ts ts' -> py_eq (C ts) (C ts') = true.
Proof.
  intros C ts ts' HC HP. destruct HC; cbn [py_eq]; rewrite ?(counter_eqb_perm py_eq _ _ HP), ?str_eqb_refl; reflexivity.
Qed.

Theorem perm_eq_hash_partial C ts ts' :
  seq_ctor C -> Permutation ts ts' -> Distinct py_eq ts ->
  py_eq (C ts) (C ts') = true /\ hk_eqb (hkey (C ts)) (hkey (C ts')) = true.
Proof.
  intros HC HP HD. split; [now apply perm_eq|].
  pose proof (Distinct_perm _ _ _ HP HD) as HD'.
  destruct HC; cbn [hkey]; rewrite !keyed_nodup_distinct by assumption; apply hk_fro_perm.
  1-4: now apply Permutation_map.
  apply Permutation_app_head. now apply Permutation_map.
Qed.

Lemma lit_Distinct_nodup ls : Distinct lit_eqb ls -> nodup_by lit_eqb ls = ls.
Proof. apply nodup_by_distinct. Qed.

Theorem literal_perm_eq_hash_partial ls ls' :
  Permutation ls ls' -> Distinct lit_eqb ls ->
  py_eq (TLiteral ls) (TLiteral ls') = true /\ hk_eqb (hkey (TLiteral ls)) (hkey (TLiteral ls')) = true.
Proof.
  intros HP HD. cbn [py_eq hkey]. rewrite (counter_eqb_perm lit_eqb _ _ HP). split; [reflexivity|].
  rewrite (nodup_by_distinct _ _ HD), (nodup_by_distinct _ _ (Distinct_perm _ _ _ HP HD)).
  apply hk_fro_perm. now apply Permutation_map.
Qed.

(* reflexive values hash to the same key *)
Theorem hash_refl t : hk_eqb (hkey t) (hkey t) = true.
Proof. apply hk_eqb_refl. Qed.

Theorem roundtrip_full :
  forall t, exists t', from_dict (S (depth t)) (to_dict t) = Ok t' /\ py_eq t t' = true /\ to_dict t' = to_dict t.
Proof. intro t. exists t. split; [apply roundtrip|]. split; [apply py_eq_refl|reflexivity]. Qed.

(* non-vacuity: a deep, mixed value *)
Example roundtrip_example :
  let t := TUnion [TList [TNamed (K"int") (K"builtins.int"); TLiteral [LStr (K"a"); LInt 1; LBool true; LNone]];
                   TCallable [TTypeVar (K"T") (Some (TNamed (K"C") (K"p.C")))] (TDict TUnknown (TSet []));
                   TBoundary (K"float") (LInt 0) (LStr (K"Infinity")) true false; TEnum [K"a"; K"b"];
                   TFinal (TTuple [TNamedSeq (K"G") (K"p.G") [TUnknown]])] in
  from_dict (S (depth t)) (to_dict t) = Ok t.
Proof. vm_compute. reflexivity. Qed.
