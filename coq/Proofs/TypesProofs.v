(* Proofs about Model/Types.v (C19). *)
From Coq Require Import List Ascii String Bool Arith ZArith Lia Permutation.
From SV Require Import Lib.Str Model.Types.
Import ListNotations.

Lemma ascii_eqb_refl c : Ascii.eqb c c = true.
Proof. apply Ascii.eqb_refl. Qed.

Lemma str_eqb_refl s : str_eqb s s = true.
Proof. induction s as [|c r IH]; cbn; [reflexivity|]. now rewrite Ascii.eqb_refl, IH. Qed.

Lemma str_eqb_eq a b : str_eqb a b = true <-> a = b.
Proof.
  revert b; induction a as [|x a IH]; intros [|y b]; cbn; split; intro H; try easy.
  - apply andb_true_iff in H as [H1 H2]. apply Ascii.eqb_eq in H1. apply IH in H2. now subst.
  - inversion H; subst. now rewrite Ascii.eqb_refl, (proj2 (IH b) eq_refl).
Qed.

Lemma str_eqb_sym a b : str_eqb a b = str_eqb b a.
Proof.
  destruct (str_eqb a b) eqn:E.
  - apply str_eqb_eq in E; subst. now rewrite str_eqb_refl.
  - destruct (str_eqb b a) eqn:E'; [|reflexivity]. apply str_eqb_eq in E'; subst. now rewrite str_eqb_refl in E.
Qed.

(* ---------- round trip ---------- *)
Lemma mapM_map {X Y} (f : X -> res Y) (g : Y -> X) (l : list Y) :
  Forall (fun y => f (g y) = Ok y) l -> mapM f (map g l) = Ok l.
Proof. induction 1 as [|y r Hy _ IH]; cbn; [reflexivity|]. now rewrite Hy; cbn; rewrite IH. Qed.

Lemma lit_roundtrip l : jv_to_lit (lit_to_jv l) = Ok l.
Proof. now destruct l. Qed.

Definition depth_list (ts : list ty) : nat :=
  (fix mx (ts : list ty) : nat := match ts with [] => 0 | x :: r => Nat.max (depth x) (mx r) end) ts.

Lemma depth_list_cons x r : depth_list (x :: r) = Nat.max (depth x) (depth_list r).
Proof. reflexivity. Qed.

Lemma depth_in ts t : In t ts -> depth t <= depth_list ts.
Proof.
  induction ts as [|x r IH]; [easy|]. rewrite depth_list_cons. intros [->|H]; [apply Nat.le_max_l|]. specialize (IH H). etransitivity; [exact IH|apply Nat.le_max_r].
Qed.

Lemma to_dict_not_none t : to_dict t <> JNone.
Proof. destruct t; discriminate. Qed.

Ltac kind_step := cbn [str_eqb K list_ascii_of_string Ascii.eqb Bool.eqb andb].

Lemma list_roundtrip (fuel : nat) (ts : list ty) :
  Forall (fun t => forall fuel, depth t < fuel -> from_dict fuel (to_dict t) = Ok t) ts ->
  depth_list ts < fuel ->
  mapM (from_dict fuel) (map to_dict ts) = Ok ts.
Proof.
  intros HF Hd. apply mapM_map. rewrite Forall_forall in *. intros x Hx.
  apply HF; [assumption|]. pose proof (depth_in _ _ Hx). lia.
Qed.

Theorem roundtrip_fuel : forall t fuel, depth t < fuel -> from_dict fuel (to_dict t) = Ok t.
Proof.
  induction t as [| n q | n q ts IH | vs | b mn mx i1 i2 | ts IH | ts IH | k v IHk IHv | ps r IHp IHr | ts IH
                 | ls | t IH | ts IH | n | n u IH] using ty_ind';
    intros fuel Hf; (destruct fuel as [|f]; [lia|]); cbn [depth] in Hf; fold depth_list in *;
    unfold from_dict; fold from_dict; cbn [to_dict]; cbn -[from_dict mapM depth].
  - reflexivity.
  - reflexivity.
  - rewrite (list_roundtrip f ts IH) by (fold (depth_list ts) in Hf; lia). reflexivity.
  - rewrite (mapM_map jstr JStr); [reflexivity|]. apply Forall_forall; intros; reflexivity.
  - rewrite !lit_roundtrip. reflexivity.
  - rewrite (list_roundtrip f ts IH) by (fold (depth_list ts) in Hf; lia). reflexivity.
  - rewrite (list_roundtrip f ts IH) by (fold (depth_list ts) in Hf; lia). reflexivity.
  - rewrite IHk, IHv by lia. reflexivity.
  - fold (depth_list ps) in Hf. rewrite (list_roundtrip f ps IHp) by lia. cbn. rewrite IHr by lia. reflexivity.
  - rewrite (list_roundtrip f ts IH) by (fold (depth_list ts) in Hf; lia). reflexivity.
  - rewrite (mapM_map jv_to_lit lit_to_jv); [reflexivity|]. apply Forall_forall; intros; apply lit_roundtrip.
  - rewrite IH by lia. reflexivity.
  - rewrite (list_roundtrip f ts IH) by (fold (depth_list ts) in Hf; lia). reflexivity.
  - reflexivity.
  - assert (HI : from_dict f (to_dict u) = Ok u) by (apply IH; lia).
    destruct (to_dict u) eqn:E; try (now apply to_dict_not_none in E); rewrite HI; reflexivity.
Qed.

Theorem roundtrip : forall t, from_dict (S (depth t)) (to_dict t) = Ok t.
Proof. intro t. apply roundtrip_fuel. lia. Qed.

(* ---------- reflexivity ---------- *)
Lemma lit_eqb_refl l : lit_eqb l l = true.
Proof. destruct l as [s|z|b|r|]; cbn; auto using str_eqb_refl, Z.eqb_refl. now destruct b. Qed.

Lemma counter_eqb_refl {X} (eqb : X -> X -> bool) l : counter_eqb eqb l l = true.
Proof.
  unfold counter_eqb. rewrite Nat.eqb_refl. cbn. apply forallb_forall. intros x _. apply Nat.eqb_refl.
Qed.

Lemma bool_eqb_refl b : Bool.eqb b b = true. Proof. now destruct b. Qed.

Lemma strset_eqb_refl l : strset_eqb l l = true.
Proof.
  unfold strset_eqb.
  assert (H : forallb (fun x => mem_str x l) l = true).
  { induction l as [|y r IHl]; cbn; [reflexivity|]. rewrite str_eqb_refl. cbn.
    apply forallb_forall. intros x Hx. rewrite forallb_forall in IHl. rewrite (IHl x Hx). apply orb_true_r. }
  now rewrite H.
Qed.

Theorem py_eq_refl : forall t, py_eq t t = true.
Proof.
  induction t as [| n q | n q ts IH | vs | b mn mx i1 i2 | ts IH | ts IH | k v IHk IHv | ps r IHp IHr | ts IH
                 | ls | t IH | ts IH | n | n u IH] using ty_ind'; cbn [py_eq];
    rewrite ?counter_eqb_refl, ?str_eqb_refl, ?lit_eqb_refl, ?bool_eqb_refl; cbn [andb]; auto.
  - apply strset_eqb_refl.
  - destruct (lit_eqb mx _); reflexivity.
  - now rewrite IHk, IHv.
Qed.

(* ---------- order insensitivity of equality and hashing ---------- *)
Lemma count_pred_perm {X} (p : X -> bool) l l' : Permutation l l' -> count_pred p l = count_pred p l'.
Proof. induction 1; cbn; try lia. Qed.

Lemma counter_eqb_perm {X} (eqb : X -> X -> bool) l l' : Permutation l l' -> counter_eqb eqb l l' = true.
Proof.
  intro HP. unfold counter_eqb. rewrite (Permutation_length HP), Nat.eqb_refl. cbn.
  apply forallb_forall. intros x _. unfold count_of. rewrite (count_pred_perm _ _ _ HP). apply Nat.eqb_refl.
Qed.

Section HkInd.
  Variable P : hk -> Prop.
  Hypothesis HHS : forall s, P (HS s).
  Hypothesis HHZ : forall z, P (HZ z).
  Hypothesis HHF : forall r, P (HF r).
  Hypothesis HHN : P HNone.
  Hypothesis HHT : forall l, Forall P l -> P (HTup l).
  Hypothesis HHR : forall l, Forall P l -> P (HFro l).
  Fixpoint hk_ind' (h : hk) : P h :=
    let fix all (l : list hk) : Forall P l :=
      match l with [] => Forall_nil P | x :: r => Forall_cons x (hk_ind' x) (all r) end in
    match h with
    | HS s => HHS s | HZ z => HHZ z | HF r => HHF r | HNone => HHN
    | HTup l => HHT l (all l) | HFro l => HHR l (all l)
    end.
End HkInd.

Definition fro_back (l : list hk) :=
  fix back (ys : list hk) : bool :=
    match ys with
    | [] => true
    | y :: r => (fix ex (xs : list hk) : bool :=
                   match xs with [] => false | x :: xr => hk_eqb x y || ex xr end) l && back r
    end.

Lemma hk_eqb_fro l l' :
  hk_eqb (HFro l) (HFro l') = forallb (fun x => existsb (hk_eqb x) l') l && fro_back l l'.
Proof. reflexivity. Qed.

Lemma fro_back_intro l ys :
  (forall y, In y ys -> exists x, In x l /\ hk_eqb x y = true) -> fro_back l ys = true.
Proof.
  induction ys as [|y r IHy]; intros Hin; [reflexivity|]. cbn. rewrite IHy by (intros; apply Hin; now right).
  rewrite andb_true_r. destruct (Hin y (or_introl eq_refl)) as (x & Hx & E). clear -Hx E.
  induction l as [|x0 xr IHx]; [destruct Hx|]. destruct Hx as [->|Hx]; [now rewrite E|].
  rewrite (IHx Hx). apply orb_true_r.
Qed.

Lemma hk_eqb_refl : forall h, hk_eqb h h = true.
Proof.
  induction h as [s|z|r| |l IH|l IH] using hk_ind'.
  - apply str_eqb_refl.
  - apply Z.eqb_refl.
  - apply str_eqb_refl.
  - reflexivity.
  - cbn. induction IH as [|x r Hx _ IHl]; [reflexivity|]. now rewrite Hx, IHl.
  - rewrite hk_eqb_fro. rewrite Forall_forall in IH. apply andb_true_iff; split.
    + apply forallb_forall. intros x Hx. apply existsb_exists. exists x. split; [auto|now apply IH].
    + apply fro_back_intro. intros y Hy. exists y. split; [auto|now apply IH].
Qed.

Lemma hk_fro_perm l l' : Permutation l l' -> hk_eqb (HFro l) (HFro l') = true.
Proof.
  intro HP. rewrite hk_eqb_fro. apply andb_true_iff; split.
  - apply forallb_forall. intros x Hx. apply existsb_exists. exists x.
    split; [eapply Permutation_in; eauto|apply hk_eqb_refl].
  - apply fro_back_intro. intros y Hy. exists y. split; [|apply hk_eqb_refl].
    eapply Permutation_in; [apply Permutation_sym; eassumption|assumption].
Qed.

(* the six sequence-like constructors *)
Inductive seq_ctor : (list ty -> ty) -> Prop :=
| sc_union : seq_ctor TUnion | sc_list : seq_ctor TList | sc_set : seq_ctor TSet | sc_tuple : seq_ctor TTuple
| sc_namedseq n q : seq_ctor (TNamedSeq n q)
| sc_callable r : seq_ctor (fun ps => TCallable ps r).

Theorem perm_eq_hash C ts ts' :
  seq_ctor C -> Permutation ts ts' ->
  py_eq (C ts) (C ts') = true /\ hk_eqb (hkey (C ts)) (hkey (C ts')) = true.
Proof.
  intros HC HP. destruct HC; cbn [py_eq hkey];
    rewrite ?(counter_eqb_perm py_eq _ _ HP), ?str_eqb_refl, ?py_eq_refl; (split; [reflexivity|]).
  1-4: apply hk_fro_perm; now apply Permutation_map.
  - apply hk_fro_perm. do 2 apply perm_skip. now apply Permutation_map.
  - apply hk_fro_perm. apply Permutation_app_tail. now apply Permutation_map.
Qed.

Theorem literal_perm_eq_hash ls ls' :
  Permutation ls ls' ->
  py_eq (TLiteral ls) (TLiteral ls') = true /\ hk_eqb (hkey (TLiteral ls)) (hkey (TLiteral ls')) = true.
Proof.
  intro HP. cbn [py_eq hkey]. rewrite (counter_eqb_perm lit_eqb _ _ HP). split; [reflexivity|].
  apply hk_fro_perm. now apply Permutation_map.
Qed.

Theorem roundtrip_full :
  forall t, exists t', from_dict (S (depth t)) (to_dict t) = Ok t' /\ py_eq t t' = true /\ to_dict t' = to_dict t.
Proof. intro t. exists t. split; [apply roundtrip|]. split; [apply py_eq_refl|reflexivity]. Qed.

(* non-vacuity: a deep, mixed value *)
Example roundtrip_example :
  let t := TUnion [TList [TNamed (K"int") (K"builtins.int"); TLiteral [LStr (K"a"); LInt 1; LBool true; LNone]];
                   TCallable [TTypeVar (K"T") (Some (TNamed (K"C") (K"p.C")))] (TDict TUnknown (TSet []));
                   TBoundary (K"float") (LInt 0) (LStr (K"Infinity")) true false; TEnum [K"a"; K"b"];
                   TFinal (TTuple [TNamedSeq (K"G") (K"p.G") [TUnknown]])] in
  from_dict (S (depth t)) (to_dict t) = Ok t.
Proof. vm_compute. reflexivity. Qed.
