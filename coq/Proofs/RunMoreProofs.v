(* Whole-tool corollaries of the analyzer invariants (Model/Run.v: run = Layout o Back o Front): what is true of the API object
   the analyzer returns is true of the API object of every completed run - the one the JSON file and the stubs are made from. *)
From Coq Require Import List Ascii String Bool Arith ZArith.
From SV Require Import Lib.Str Gen.Tables Model.Types Model.Api Model.Discover Model.Back Model.Layout Model.View Model.Front Model.Run
     Proofs.WalkProofs Proofs.JsonProofs Proofs.AttrProofs Proofs.ResolveProofs.
Import ListNotations.

Lemma run_front v nc fs0 out : run v nc fs0 = Ok out ->
  exists o, front v = Ok o /\ out_api out = o_api o /\ out_flatd out = o_flatd o.
Proof.
  unfold run. destruct (front v) as [o|]; cbn [bind]; [|discriminate].
  destruct (back_run (o_api o) nc fs0) as [[[data s] fs]|]; cbn [bind]; [|discriminate].
  intro H. inversion H; subst. exists o. auto.
Qed.

Theorem run_attribute_names_unique v nc fs0 out : run v nc fs0 = Ok out ->
  Forall (fun m => Forall cls_ok (m_classes m)) (api_modules (out_api out)) /\
  Forall (fun kv : str * cls => cls_ok (snd kv)) (api_classes (out_api out)).
Proof.
  intro H. destruct (run_front _ _ _ _ H) as (o & F & -> & _). exact (front_attribute_names_unique _ _ F).
Qed.

Definition output_keys (out : output) : keys :=
  {| kC := map fst (api_classes (out_api out)); kF := map fst (fl_functions (out_flatd out)); kR := map fst (fl_results (out_flatd out));
     kP := map fst (fl_params (out_flatd out)); kA := map fst (fl_attrs (out_flatd out)); kE := map fst (fl_enums (out_flatd out));
     kI := map fst (fl_enum_insts (out_flatd out)) |}.

Theorem run_ids_resolve v nc fs0 out : run v nc fs0 = Ok out ->
  let K := output_keys out in
  Forall (mod_res K) (api_modules (out_api out)) /\
  Forall (fun kv : str * cls => cls_res K (snd kv)) (api_classes (out_api out)) /\
  Forall (fun kv : str * func => func_res K (snd kv)) (fl_functions (out_flatd out)) /\
  Forall (fun kv : str * enum_ => enum_res K (snd kv)) (fl_enums (out_flatd out)).
Proof.
  intro H. destruct (run_front _ _ _ _ H) as (o & F & EA & EF). unfold output_keys. rewrite EA, EF.
  exact (front_ids_resolve _ _ F).
Qed.
