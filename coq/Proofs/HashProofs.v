(* C19: equal values have equal hash keys.  Hash-key equality is an equivalence; a frozenset keeps one representative
   per class of equal elements, and the multiset of the representatives' keys does not depend on the choice. *)
From Coq Require Import List Ascii String Bool Arith ZArith Lia Permutation.
From SV Require Import Lib.Str Model.Types Proofs.TypesProofs Proofs.CounterProofs Proofs.EqProofs.
Import ListNotations.

(* ---------- hash keys: equality is an equivalence ---------- *)
Fixpoint hdepth (h : hk) : nat :=
  let mx := fix mx (l : list hk) : nat := match l with [] => 0 | x :: r => Nat.max (hdepth x) (mx r) end in
  match h with
  | HTup l | HFro l => S (mx l)
  | _ => 1
  end.
Definition hdepth_list (l : list hk) : nat :=
  (fix mx (l : list hk) : nat := match l with [] => 0 | x :: r => Nat.max (hdepth x) (mx r) end) l.

Lemma hdepth_list_cons x r : hdepth_list (x :: r) = Nat.max (hdepth x) (hdepth_list r).
Proof. reflexivity. Qed.

Lemma hdepth_in l x : In x l -> hdepth x <= hdepth_list l.
Proof.
  induction l as [|y r IH]; [easy|]. rewrite hdepth_list_cons. intros [->|H]; [apply Nat.le_max_l|].
  etransitivity; [exact (IH H)|apply Nat.le_max_r].
Qed.

Lemma hdepth_children n l : hdepth_list l <= n -> Forall (fun x => hdepth x <= n) l.
Proof. intro H. apply Forall_forall. intros x Hx. pose proof (hdepth_in _ _ Hx). lia. Qed.

Lemma hdepth_pos h : 1 <= hdepth h.
Proof. destruct h; cbn; lia. Qed.

Lemma hk_eqb_fro' l l' : hk_eqb (HFro l) (HFro l') = counter_eqb hk_eqb l l'.
Proof. reflexivity. Qed.

Definition tup_eqb : list hk -> list hk -> bool :=
  fix go (l l' : list hk) : bool :=
    match l, l' with
    | [], [] => true
    | x :: r, y :: r' => hk_eqb x y && go r r'
    | _, _ => false
    end.
Lemma hk_eqb_tup l l' : hk_eqb (HTup l) (HTup l') = tup_eqb l l'.
Proof. reflexivity. Qed.

Definition hequiv_upto (n : nat) : Prop :=
  forall a b c, hdepth a <= n -> hdepth b <= n -> hdepth c <= n ->
    hk_eqb a b = hk_eqb b a /\ (hk_eqb a b = true -> hk_eqb b c = true -> hk_eqb a c = true).

Lemma hequiv_step n : hequiv_upto n -> hequiv_upto (S n).
Proof.
  intros IH a b c Ha Hb Hc.
  set (D := fun t => hdepth t <= n).
  assert (e_refl : forall x, D x -> hk_eqb x x = true) by (intros; apply hk_eqb_refl).
  assert (e_sym : forall x y, D x -> D y -> hk_eqb x y = hk_eqb y x) by (intros x y Dx Dy; exact (proj1 (IH x y y Dx Dy Dy))).
  assert (e_trans : forall x y z, D x -> D y -> D z -> hk_eqb x y = true -> hk_eqb y z = true -> hk_eqb x z = true)
    by (intros x y z Dx Dy Dz; exact (proj2 (IH x y z Dx Dy Dz))).
  assert (kids : forall l, hdepth (HTup l) <= S n -> Forall D l).
  { intros l H. apply hdepth_children. cbn [hdepth] in H. fold (hdepth_list l) in H. now apply le_S_n. }
  assert (kids' : forall l, hdepth (HFro l) <= S n -> Forall D l).
  { intros l H. apply hdepth_children. cbn [hdepth] in H. fold (hdepth_list l) in H. now apply le_S_n. }
  assert (tsym : forall l l', Forall D l -> Forall D l' -> tup_eqb l l' = tup_eqb l' l).
  { induction l as [|x r IHl]; intros [|y r'] Dl Dl'; cbn; try reflexivity.
    inversion Dl; inversion Dl'; subst. rewrite (e_sym x y), IHl by assumption. reflexivity. }
  assert (ttrans : forall l l' l'', Forall D l -> Forall D l' -> Forall D l'' ->
             tup_eqb l l' = true -> tup_eqb l' l'' = true -> tup_eqb l l'' = true).
  { induction l as [|x r IHl]; intros [|y r'] [|z r''] Dl Dl' Dl''; cbn; try discriminate; try reflexivity.
    inversion Dl; inversion Dl'; inversion Dl''; subst. intros E1 E2.
    apply andb_true_iff in E1 as [A1 A2], E2 as [B1 B2].
    rewrite (e_trans x y z), (IHl r' r'') by assumption. reflexivity. }
  split.
  - destruct a, b; try reflexivity.
    + apply str_eqb_sym.
    + apply Z.eqb_sym.
    + apply str_eqb_sym.
    + rewrite !hk_eqb_tup. apply tsym; [now apply kids|now apply kids].
    + rewrite !hk_eqb_fro'. apply (counter_eqb_sym hk_eqb D); auto.
  - destruct a, b; try discriminate; destruct c; try discriminate.
    + cbn. intros H1 H2. apply str_eqb_eq in H1, H2. subst. apply str_eqb_refl.
    + cbn. intros H1 H2. apply Z.eqb_eq in H1, H2. subst. apply Z.eqb_refl.
    + cbn. intros H1 H2. apply str_eqb_eq in H1, H2. subst. apply str_eqb_refl.
    + reflexivity.
    + rewrite !hk_eqb_tup. apply ttrans; [now apply kids|now apply kids|now apply kids].
    + rewrite !hk_eqb_fro'. apply (counter_eqb_trans hk_eqb D e_refl e_sym e_trans); auto.
Qed.

Lemma hequiv_all : forall n, hequiv_upto n.
Proof.
  induction n as [|n IH]; [|now apply hequiv_step].
  intros a b c Ha. pose proof (hdepth_pos a). lia.
Qed.

Theorem hk_eqb_sym a b : hk_eqb a b = hk_eqb b a.
Proof.
  exact (proj1 (hequiv_all (Nat.max (hdepth a) (hdepth b)) a b b (Nat.le_max_l _ _) (Nat.le_max_r _ _) (Nat.le_max_r _ _))).
Qed.

Theorem hk_eqb_trans a b c : hk_eqb a b = true -> hk_eqb b c = true -> hk_eqb a c = true.
Proof.
  apply (proj2 (hequiv_all (Nat.max (hdepth a) (Nat.max (hdepth b) (hdepth c))) a b c (Nat.le_max_l _ _)
                           (Nat.le_trans _ _ _ (Nat.le_max_l _ _) (Nat.le_max_r _ _))
                           (Nat.le_trans _ _ _ (Nat.le_max_r _ _) (Nat.le_max_r _ _)))).
Qed.

(* ---------- representatives ---------- *)
Section Reps.
  Context {T : Type} (eqb : T -> T -> bool).
  Hypothesis e_refl : forall x, eqb x x = true.
  Hypothesis e_sym : forall x y, eqb x y = eqb y x.
  Hypothesis e_trans : forall x y z, eqb x y = true -> eqb y z = true -> eqb x z = true.

  (* every element is equal to one of the representatives, and the representatives are elements *)
  Lemma nodup_by_covers l x : In x l -> exists r, In r (nodup_by eqb l) /\ eqb r x = true.
  Proof.
    induction l as [|y rest IH]; [easy|]. cbn [nodup_by]. intros [->|H].
    - exists x. split; [now left|apply e_refl].
    - destruct (IH H) as (r & Hr & Er). destruct (eqb y r) eqn:E.
      + exists y. split; [now left|eapply e_trans; eassumption].
      + exists r. split; [right; apply filter_In; split; [exact Hr|now rewrite E]|exact Er].
  Qed.

  Lemma nodup_by_incl l x : In x (nodup_by eqb l) -> In x l.
  Proof.
    induction l as [|y rest IH]; [easy|]. cbn [nodup_by]. intros [->|H]; [now left|].
    right. apply IH. now apply filter_In in H as [H _].
  Qed.

  Lemma nodup_by_Distinct l : Distinct eqb (nodup_by eqb l).
  Proof.
    induction l as [|y rest IH]; cbn [nodup_by]; [constructor|]. constructor.
    - intros z Hz. apply filter_In in Hz as [_ Hz]. apply negb_true_iff in Hz. split; [exact Hz|now rewrite e_sym].
    - clear -IH. induction IH as [|x r Hx _ IHr]; cbn; [constructor|].
      destruct (negb (eqb y x)); [|exact IHr]. constructor; [|exact IHr].
      intros z Hz. apply filter_In in Hz as [Hz _]. now apply Hx.
  Qed.

  (* two lists of pairwise unequal elements that cover each other can be paired up *)
  Lemma distinct_same_classes_matches : forall a b, Distinct eqb a -> Distinct eqb b ->
    (forall x, In x a -> exists y, In y b /\ eqb x y = true) ->
    (forall y, In y b -> exists x, In x a /\ eqb x y = true) ->
    Matches eqb a b.
  Proof.
    induction a as [|x a' IH]; intros b Da Db Hab Hba.
    - destruct b as [|y b']; [exists []; split; constructor|].
      destruct (Hba y (or_introl eq_refl)) as (x & [] & _).
    - inversion Da as [|? ? Hx Da']; subst.
      destruct (Hab x (or_introl eq_refl)) as (y & Hy & Exy).
      destruct (in_split _ _ Hy) as (b1 & b2 & ->).
      assert (HP : Permutation (b1 ++ y :: b2) (y :: b1 ++ b2)) by (symmetry; apply Permutation_middle).
      pose proof (Distinct_perm _ _ _ HP Db) as Db2. inversion Db2 as [|? ? Hyb Db']; subst.
      assert (M : Matches eqb a' (b1 ++ b2)).
      { apply IH; [exact Da'|exact Db'| |].
        - intros x' Hx'. destruct (Hab x' (or_intror Hx')) as (y' & Hy' & E').
          assert (Hy2 : In y' (y :: b1 ++ b2)) by (eapply Permutation_in; [exact HP|exact Hy']).
          destruct Hy2 as [<-|Hy2]; [|eauto].
          exfalso. destruct (Hx x' Hx') as [F _]. rewrite (e_trans x y x') in F; [discriminate|exact Exy|now rewrite e_sym].
        - intros y' Hy'. assert (Hy2 : In y' (b1 ++ y :: b2)) by (eapply Permutation_in; [symmetry; exact HP|now right]).
          destruct (Hba y' Hy2) as (x' & [<-|Hx'] & E'); [|eauto].
          exfalso. destruct (Hyb y' Hy') as [F _]. rewrite (e_trans y x y') in F; [discriminate|now rewrite e_sym|exact E']. }
      destruct M as (b0 & HP0 & HF0). exists (y :: b0). split; [|now constructor].
      etransitivity; [exact HP|now constructor].
  Qed.

  Lemma matches_nodup a b : Matches eqb a b -> Matches eqb (nodup_by eqb a) (nodup_by eqb b).
  Proof.
    intros (b0 & HP & HF). apply distinct_same_classes_matches; try apply nodup_by_Distinct.
    - intros x Hx. apply nodup_by_incl in Hx.
      assert (exists y, In y b0 /\ eqb x y = true) as (y & Hy & E).
      { clear -HF Hx. induction HF as [|u v l m Euv _ IH]; [destruct Hx|]. destruct Hx as [->|Hx]; [exists v; split; [now left|exact Euv]|].
        destruct (IH Hx) as (y & Hy & E). exists y. split; [now right|exact E]. }
      assert (Hyb : In y b) by (eapply Permutation_in; [symmetry; exact HP|exact Hy]).
      destruct (nodup_by_covers b y Hyb) as (r & Hr & Er). exists r. split; [exact Hr|].
      eapply e_trans; [exact E|now rewrite e_sym].
    - intros y Hy. apply nodup_by_incl in Hy.
      assert (Hy0 : In y b0) by (eapply Permutation_in; [exact HP|exact Hy]).
      assert (exists x, In x a /\ eqb x y = true) as (x & Hx & E).
      { clear -HF Hy0. induction HF as [|u v l m Euv _ IH]; [destruct Hy0|]. destruct Hy0 as [->|Hy0]; [exists u; split; [now left|exact Euv]|].
        destruct (IH Hy0) as (x & Hx & E). exists x. split; [now right|exact E]. }
      destruct (nodup_by_covers a x Hx) as (r & Hr & Er). exists r. split; [exact Hr|]. eapply e_trans; eassumption.
  Qed.
End Reps.

(* ---------- from paired-up elements to equal frozenset keys ---------- *)
Definition HE (a b : hk) : Prop := hk_eqb a b = true.

Lemma hk_matches_fro A B : Matches hk_eqb A B -> hk_eqb (HFro A) (HFro B) = true.
Proof.
  intro M. rewrite hk_eqb_fro'. apply (counter_eqb_counter2 hk_eqb).
  assert (FA : Forall (fun _ : hk => True) A) by (apply Forall_forall; auto).
  assert (FB : Forall (fun _ : hk => True) B) by (apply Forall_forall; auto).
  refine (proj1 (matches_counter2 hk_eqb (fun _ => True) _ _ _ A B FA FB M)).
  - intros; apply hk_eqb_refl.
  - intros; apply hk_eqb_sym.
  - intros x y z _ _ _; apply hk_eqb_trans.
Qed.

Lemma forall2_matches {T} (eqb : T -> T -> bool) A B : Forall2 (fun x y => eqb x y = true) A B -> Matches eqb A B.
Proof. intro H. exists B. split; [reflexivity|exact H]. Qed.

Lemma matches_map {T} (eqb : T -> T -> bool) (f : T -> hk) A B :
  (forall x y, In x A -> In y B -> eqb x y = true -> hk_eqb (f x) (f y) = true) ->
  Matches eqb A B -> Matches hk_eqb (map f A) (map f B).
Proof.
  intros Hf (B0 & HP & HF). exists (map f B0). split; [now apply Permutation_map|].
  assert (Hin : forall y, In y B0 -> In y B) by (intros y Hy; eapply Permutation_in; [symmetry; exact HP|exact Hy]).
  clear HP. induction HF as [|x y A' B' E _ IH]; cbn; constructor.
  - apply Hf; [now left|apply Hin; now left|exact E].
  - apply IH; [intros; apply Hf; auto; now right|intros; apply Hin; now right].
Qed.

Lemma matches_app_head {T} (eqb : T -> T -> bool) P A B :
  (forall x, In x P -> eqb x x = true) -> Matches eqb A B -> Matches eqb (P ++ A) (P ++ B).
Proof.
  intros Hr (B0 & HP & HF). exists (P ++ B0). split; [now apply Permutation_app_head|].
  induction P as [|p P' IH]; cbn; [exact HF|]. constructor; [apply Hr; now left|apply IH; intros; apply Hr; now right].
Qed.

Lemma filter_map_pair {T} (eqb : T -> T -> bool) (f : T -> hk) x l :
  filter (fun y : T * hk => negb (eqb x (fst y))) (map (fun z => (z, f z)) l) =
  map (fun z => (z, f z)) (filter (fun y => negb (eqb x y)) l).
Proof. induction l as [|y r IH]; cbn; [reflexivity|]. destruct (negb (eqb x y)); cbn; now rewrite IH. Qed.

Lemma nodup_by_map_pair {T} (eqb : T -> T -> bool) (f : T -> hk) l :
  nodup_by (fun a b : T * hk => eqb (fst a) (fst b)) (map (fun z => (z, f z)) l) = map (fun z => (z, f z)) (nodup_by eqb l).
Proof. induction l as [|x r IH]; cbn; [reflexivity|]. f_equal. now rewrite IH, filter_map_pair. Qed.

Lemma nodup_by_map {T} (eqb : T -> T -> bool) (f : T -> hk) l :
  keyed_nodup eqb (map (fun x => (x, f x)) l) = map f (nodup_by eqb l).
Proof. unfold keyed_nodup. rewrite nodup_by_map_pair, map_map. reflexivity. Qed.

Lemma lit_eq_hk a b : lit_eqb a b = true -> hk_eqb (lit_hk a) (lit_hk b) = true.
Proof.
  destruct a as [s|z|v|r|], b as [s'|z'|v'|r'|]; cbn; try discriminate; auto; intro H;
    try (apply Z.eqb_eq in H; subst; apply Z.eqb_refl).
  destruct v, v'; cbn in *; try discriminate; reflexivity.
Qed.

(* the key of a sequence of types: the keys of the representatives *)
Lemma seq_key ts : keyed_nodup py_eq (map (fun x => (x, hkey x)) ts) = map hkey (nodup_by py_eq ts).
Proof. apply nodup_by_map. Qed.

Definition eq_hash_upto (n : nat) : Prop :=
  forall a b, depth a <= n -> depth b <= n -> py_eq a b = true -> hk_eqb (hkey a) (hkey b) = true.

Lemma py_matches ts ts' : counter_eqb py_eq ts ts' = true -> Matches py_eq ts ts'.
Proof.
  intro H. apply (counter_eqb_matches py_eq (fun _ => True)); auto.
  - intros; apply py_eq_refl.
  - intros; apply py_eq_sym.
  - intros x y z _ _ _; apply py_eq_trans.
  - apply Forall_forall; auto.
  - apply Forall_forall; auto.
Qed.

(* paired-up type lists give paired-up key lists of their representatives *)
Lemma seq_keys_match n ts ts' :
  eq_hash_upto n -> Forall (fun t => depth t <= n) ts -> Forall (fun t => depth t <= n) ts' ->
  Matches py_eq ts ts' -> Matches hk_eqb (map hkey (nodup_by py_eq ts)) (map hkey (nodup_by py_eq ts')).
Proof.
  intros IH D1 D2 M. apply (matches_map py_eq).
  - intros x y Hx Hy E. apply IH; [| |exact E].
    + rewrite Forall_forall in D1. apply D1. eapply nodup_by_incl; exact Hx.
    + rewrite Forall_forall in D2. apply D2. eapply nodup_by_incl; exact Hy.
  - apply matches_nodup; [apply py_eq_refl|apply py_eq_sym|apply py_eq_trans|exact M].
Qed.

Lemma eq_hash_step n : eq_hash_upto n -> eq_hash_upto (S n).
Proof.
  intros IH a b Ha Hb E.
  apply kids_of_bound in Ha, Hb.
  destruct a, b; cbn [py_eq] in E; try discriminate; cbn [kids_bounded] in *; cbn [hkey].
  - reflexivity.
  - apply andb_true_iff in E as [E1 E2]. apply str_eqb_eq in E1, E2. subst. apply hk_eqb_refl.
  - apply andb_true_iff in E as [E Eq]. apply andb_true_iff in E as [Ec En]. apply str_eqb_eq in Eq, En. subst.
    rewrite !seq_key. apply hk_matches_fro. apply matches_app_head; [intros; apply hk_eqb_refl|].
    apply (seq_keys_match n); auto. now apply py_matches.
  - (* enum: set equality of the value strings *)
    rewrite hk_eqb_tup. cbn. rewrite andb_true_r. apply hk_matches_fro.
    apply (matches_map str_eqb); [intros x y _ _ Exy; exact Exy|].
    unfold strset_eqb in E. apply andb_true_iff in E as [E1 E2]. rewrite forallb_forall in E1, E2.
    assert (str_trans : forall x y z : str, str_eqb x y = true -> str_eqb y z = true -> str_eqb x z = true).
    { intros x y z H1 H2. apply str_eqb_eq in H1, H2. subst. apply str_eqb_refl. }
    apply distinct_same_classes_matches.
    + apply str_eqb_sym.
    + exact str_trans.
    + apply nodup_by_Distinct. apply str_eqb_sym.
    + apply nodup_by_Distinct. apply str_eqb_sym.
    + intros x Hx. apply nodup_by_incl in Hx. specialize (E1 x Hx). apply mem_str_In' in E1.
      destruct (nodup_by_covers str_eqb str_eqb_refl str_trans values0 x E1) as (r & Hr & Er).
      exists r. split; [exact Hr|now rewrite str_eqb_sym].
    + intros y Hy. apply nodup_by_incl in Hy. specialize (E2 y Hy). apply mem_str_In' in E2.
      destruct (nodup_by_covers str_eqb str_eqb_refl str_trans values y E2) as (r & Hr & Er).
      exists r. split; [exact Hr|exact Er].
  - (* boundary *)
    destruct (str_eqb base base0 && lit_eqb bmin bmin0 && Bool.eqb min_inc min_inc0 && lit_eqb bmax bmax0) eqn:C; [|discriminate].
    apply andb_true_iff in C as [C Cmx]. apply andb_true_iff in C as [C Ci]. apply andb_true_iff in C as [Cb Cmn].
    apply str_eqb_eq in Cb. apply Bool.eqb_prop in Ci. subst.
    rewrite <- (lit_eqb_congr_r bmax bmax0 (LStr (K"Infinity")) Cmx).
    rewrite hk_eqb_tup. cbn [tup_eqb]. rewrite !hk_eqb_refl, (lit_eq_hk _ _ Cmn), (lit_eq_hk _ _ Cmx). cbn [andb].
    rewrite andb_true_r.
    destruct (lit_eqb bmax (LStr (K"Infinity"))); [reflexivity|]. apply Bool.eqb_prop in E. subst. apply hk_eqb_refl.
  - rewrite !seq_key. apply hk_matches_fro. apply (seq_keys_match n); auto. now apply py_matches.
  - rewrite !seq_key. apply hk_matches_fro. apply (seq_keys_match n); auto. now apply py_matches.
  - (* dict *)
    destruct Ha, Hb. apply andb_true_iff in E as [E1 E2].
    change [(a1, hkey a1); (a2, hkey a2)] with (map (fun x => (x, hkey x)) [a1; a2]).
    change [(b1, hkey b1); (b2, hkey b2)] with (map (fun x => (x, hkey x)) [b1; b2]).
    rewrite !seq_key. apply hk_matches_fro. apply (seq_keys_match n); auto.
    apply forall2_matches. repeat constructor; assumption.
  - (* callable *)
    destruct Ha as [Hp Hr], Hb as [Hp' Hr']. apply andb_true_iff in E as [E1 E2].
    replace (map (fun x => (x, hkey x)) ps ++ [(a, hkey a)]) with (map (fun x => (x, hkey x)) (ps ++ [a])) by (now rewrite map_app).
    replace (map (fun x => (x, hkey x)) ps0 ++ [(b, hkey b)]) with (map (fun x => (x, hkey x)) (ps0 ++ [b])) by (now rewrite map_app).
    rewrite !seq_key. apply hk_matches_fro. apply (seq_keys_match n); auto.
    + apply Forall_app; split; [exact Hp|now constructor].
    + apply Forall_app; split; [exact Hp'|now constructor].
    + destruct (py_matches _ _ E1) as (B0 & HP & HF). exists (B0 ++ [b]). split; [now apply Permutation_app_tail|].
      apply Forall2_app; [exact HF|now constructor].
  - rewrite !seq_key. apply hk_matches_fro. apply (seq_keys_match n); auto. now apply py_matches.
  - (* literal *)
    apply hk_matches_fro. apply (matches_map lit_eqb); [intros x y _ _; apply lit_eq_hk|].
    apply matches_nodup; [apply lit_eqb_refl|apply lit_eqb_sym|apply lit_eqb_trans|].
    apply (counter_eqb_matches lit_eqb (fun _ => True)); auto using lit_eqb_refl, lit_eqb_sym.
    + intros x y z _ _ _; apply lit_eqb_trans.
    + apply Forall_forall; auto.
    + apply Forall_forall; auto.
  - apply hk_matches_fro. apply forall2_matches. repeat constructor. now apply IH.
  - rewrite !seq_key. apply hk_matches_fro. apply (seq_keys_match n); auto. now apply py_matches.
  - apply andb_true_iff in E as [E1 E2]. apply str_eqb_eq in E1. subst.
    apply hk_matches_fro. apply forall2_matches. constructor; [apply str_eqb_refl|]. constructor; [|constructor].
    destruct ub, ub0; try discriminate; [now apply IH|reflexivity].
Qed.

Lemma eq_hash_all : forall n, eq_hash_upto n.
Proof.
  induction n as [|n IH]; [|now apply eq_hash_step].
  intros a b Ha. pose proof (depth_pos a). lia.
Qed.

(* equal values have equal hash keys *)
Theorem eq_hash a b : py_eq a b = true -> hk_eqb (hkey a) (hkey b) = true.
Proof. apply (eq_hash_all (Nat.max (depth a) (depth b))); [apply Nat.le_max_l|apply Nat.le_max_r]. Qed.

(* consequently: types that ignore element order in equality also ignore it in hashing - for every element list *)
Theorem perm_eq_hash C ts ts' : seq_ctor C -> Permutation ts ts' ->
  py_eq (C ts) (C ts') = true /\ hk_eqb (hkey (C ts)) (hkey (C ts')) = true.
Proof. intros HC HP. split; [now apply perm_eq|apply eq_hash; now apply perm_eq]. Qed.

Theorem callable_params_perm_eq_hash ps ps' r : Permutation ps ps' ->
  py_eq (TCallable ps r) (TCallable ps' r) = true /\ hk_eqb (hkey (TCallable ps r)) (hkey (TCallable ps' r)) = true.
Proof.
  intro HP. assert (E : py_eq (TCallable ps r) (TCallable ps' r) = true).
  { cbn [py_eq]. now rewrite (counter_eqb_perm py_eq _ _ HP), py_eq_refl. }
  split; [exact E|now apply eq_hash].
Qed.

Theorem literal_perm_eq_hash ls ls' : Permutation ls ls' ->
  py_eq (TLiteral ls) (TLiteral ls') = true /\ hk_eqb (hkey (TLiteral ls)) (hkey (TLiteral ls')) = true.
Proof.
  intro HP. assert (E : py_eq (TLiteral ls) (TLiteral ls') = true) by (cbn [py_eq]; now rewrite (counter_eqb_perm lit_eqb _ _ HP)).
  split; [exact E|now apply eq_hash].
Qed.
