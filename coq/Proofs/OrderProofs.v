(* Order-insensitivity results (C05 union normalisation, C08 shortest re-export selection). *)
From Coq Require Import List Ascii String Bool Arith Lia Permutation.
From SV Require Import Lib.Str Gen.Tables Model.Types Model.Naming Model.Api Model.Back
     Proofs.TypesProofs Proofs.SortProofs.
Import ListNotations.
Local Arguments Nat.ltb : simpl never.

(* ---------- unions: the rendered union depends only on the set of rendered members ---------- *)
Theorem finish_union_set b l l' : (forall x, In x l <-> In x l') -> finish_union b l = finish_union b l'.
Proof. intro H. unfold finish_union. now rewrite (sort_dedupe_set l l' H). Qed.

Corollary finish_union_perm b l l' : Permutation l l' -> finish_union b l = finish_union b l'.
Proof. intro HP. apply finish_union_set. intro x. split; apply Permutation_in; [exact HP|symmetry; exact HP]. Qed.

Corollary finish_union_dup b x l : finish_union b (x :: x :: l) = finish_union b (x :: l).
Proof. apply finish_union_set. intro y. cbn. tauto. Qed.

(* a single (possibly repeated) member is returned as it is *)
Lemma finish_union_single b x : finish_union b [x] = x.
Proof.
  unfold finish_union. cbn. destruct (mem_str t_none_type_name [x] && b); cbn; reflexivity.
Qed.

(* ---------- C08: the shortest re-export does not depend on the iteration order, unless there is a tie ---------- *)
Section Select.
  Definition cand := (str * option str)%type.

  Definition step (best : option cand) (c : cand) : option cand :=
    match best with
    | None => Some c
    | Some b => if id_len c <? id_len b then Some c else best
    end.

  Lemma select_fold cs : select cs = fold_left step cs None.
  Proof. reflexivity. Qed.

  Lemma fold_step_spec l : forall acc,
      match fold_left step l acc with
      | None => acc = None /\ l = []
      | Some r => (acc = Some r \/ In r l) /\ (forall y, acc = Some y -> id_len r <= id_len y)
                  /\ (forall x, In x l -> id_len r <= id_len x)
      end.
  Proof.
    induction l as [|x l IH]; intros acc; cbn [fold_left].
    - destruct acc as [a|]; [|split; reflexivity]. split; [now left|]. split; [intros y H; inversion H; subst; lia|intros x []].
    - specialize (IH (step acc x)). destruct (fold_left step l (step acc x)) as [r|].
      + destruct IH as (Hin & Hacc & Hall). split; [|split].
        * destruct Hin as [H|H]; [|now right; right].
          destruct acc as [y|]; cbn in H; [destruct (id_len x <? id_len y)|]; inversion H; subst; cbn; auto.
        * intros y ->. cbn in Hacc. destruct (id_len x <? id_len y) eqn:E.
          -- specialize (Hacc x eq_refl). apply Nat.ltb_lt in E. lia.
          -- now apply Hacc.
        * intros z [Hz|Hz]; [subst z|now apply Hall].
          destruct acc as [y|]; cbn in Hacc.
          -- destruct (id_len x <? id_len y) eqn:E; [now apply Hacc|]. specialize (Hacc y eq_refl). apply Nat.ltb_ge in E. lia.
          -- now apply Hacc.
      + destruct IH as [H _]. destruct acc as [a|]; cbn in H; [destruct (id_len x <? id_len a)|]; discriminate.
  Qed.

  (* no two different candidates of the same (hence of minimal) length *)
  Definition tie_free (l : list cand) := forall x y, In x l -> In y l -> id_len x = id_len y -> x = y.

  Theorem select_perm l l' : Permutation l l' -> tie_free l -> select l = select l'.
  Proof.
    intros HP HT. rewrite !select_fold.
    pose proof (fold_step_spec l None) as H1. pose proof (fold_step_spec l' None) as H2.
    destruct (fold_left step l None) as [r|], (fold_left step l' None) as [r'|].
    - destruct H1 as ([|Hr] & _ & Ha); [discriminate|]. destruct H2 as ([|Hr'] & _ & Ha'); [discriminate|].
      f_equal. apply HT; [assumption|eapply Permutation_in; [symmetry; eassumption|assumption]|].
      assert (In r l') by (eapply Permutation_in; eassumption).
      assert (In r' l) by (eapply Permutation_in; [symmetry; eassumption|assumption]).
      specialize (Ha r' H0). specialize (Ha' r H). lia.
    - destruct H2 as [_ ->]. apply Permutation_sym, Permutation_nil in HP. subst. destruct H1 as ([|[]] & _); discriminate.
    - destruct H1 as [_ ->]. apply Permutation_nil in HP. subst. destruct H2 as ([|[]] & _); discriminate.
    - reflexivity.
  Qed.

  (* the result is a candidate of minimal length *)
  Theorem select_minimal l r : select l = Some r -> In r l /\ forall x, In x l -> id_len r <= id_len x.
  Proof.
    rewrite select_fold. intro H. pose proof (fold_step_spec l None) as HS. rewrite H in HS.
    destruct HS as ([|Hr] & _ & Ha); [discriminate|auto].
  Qed.

  (* with a tie the chosen import depends on the iteration order (recorded finding: shortest_reexport_tie) *)
  Example select_tie_refuted :
    exists l l', Permutation l l' /\ select l <> select l'.
  Proof.
    exists [(K"pkg/a", None); (K"pkg/b", None)], [(K"pkg/b", None); (K"pkg/a", None)].
    split; [apply perm_swap|]. vm_compute. discriminate.
  Qed.
End Select.
