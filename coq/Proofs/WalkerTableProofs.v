(* Tie A for the walker: the child filters and the enum test of the model are the tables read off ASTWalker.__walk / __is_enum. *)
From Coq Require Import List Ascii String Bool.
From SV Require Import Lib.Str Gen.Tables Model.Types Model.View Model.Front.
Import ListNotations.

(* the mypy class a member of the view stands for *)
Definition member_class (m : cmember) : str :=
  match m with
  | CMAssign _ _ => K"AssignmentStmt" | CMFunc _ => K"FuncDef" | CMDeco _ => K"Decorator"
  | CMOver _ _ _ _ => K"OverloadedFuncDef" | CMClass _ => K"ClassDef" | CMOther cls _ => cls
  end.
Definition known_classes : list str := [K"AssignmentStmt"; K"FuncDef"; K"Decorator"; K"OverloadedFuncDef"; K"ClassDef"].
(* the dumper writes CMOther only for nodes of other classes *)
Definition other_ok (m : cmember) : bool := match m with CMOther cls _ => negb (mem_str cls known_classes) | _ => true end.

Lemma mem_str_sub x (a b : list str) : forallb (fun k => mem_str k b) a = true -> mem_str x b = false -> mem_str x a = false.
Proof.
  induction a as [|h r IH]; cbn [forallb mem_str]; intros H N; [reflexivity|].
  apply andb_true_iff in H. destruct H as [H1 H2]. destruct (str_eqb x h) eqn:E.
  - exfalso. assert (x = h) by (revert E; clear; revert h; induction x as [|c x IH]; intros [|d h]; cbn; try discriminate; auto;
      intro E; apply andb_true_iff in E; destruct E as [E1 E2]; apply Ascii.eqb_eq in E1; subst; f_equal; auto).
    subst. congruence.
  - cbn. apply IH; assumption.
Qed.

Ltac table_case tbl :=
  intros m H; destruct m; try (vm_compute; reflexivity);
  cbn [other_ok] in H; apply negb_true_iff in H; cbn [member_class];
  symmetry; apply (mem_str_sub _ tbl known_classes); [vm_compute; reflexivity|exact H].

Theorem module_child_is_table : forall m, other_ok m = true -> module_child m = mem_str (member_class m) t_walker_module_children.
Proof. table_case t_walker_module_children. Qed.
Theorem class_child_is_table : forall m, other_ok m = true -> class_child m = mem_str (member_class m) t_walker_class_children.
Proof. table_case t_walker_class_children. Qed.
Theorem enum_child_is_table : forall m, other_ok m = true -> enum_child m = mem_str (member_class m) t_walker_enum_children.
Proof. table_case t_walker_enum_children. Qed.

Theorem is_enum_def_is_table : forall c,
  is_enum_def c = existsb (fun b => match be_fullname b with Some f => mem_str f t_enum_base_names | None => false end) (cd_bases c).
Proof.
  intro c. unfold is_enum_def. induction (cd_bases c) as [|b r IH]; cbn [existsb]; [reflexivity|]. rewrite IH. f_equal.
  destruct (be_fullname b) as [f|]; [|reflexivity].
  unfold t_enum_base_names. cbn [mem_str]. rewrite orb_false_r. reflexivity.
Qed.

Theorem init_children_are_assignments : t_walker_init_children = [K"AssignmentStmt"].
Proof. reflexivity. Qed.
