(* Walk-level lemmas about the analyzer model: what the whole walk does, for every module tree. *)
From Coq Require Import List Ascii String Bool Arith ZArith Lia.
From SV Require Import Lib.Str Gen.Tables Model.Types Model.Naming Model.Discover Model.Api Model.FrontSmall Model.View Model.Front
     Proofs.FrontSmallProofs Proofs.DiscoverProofs.
Import ListNotations.

(* induction over class members that reaches through the member lists of nested classes *)
Section CmInd.
  Variable P : cmember -> Prop.
  Hypothesis HAssign : forall l u, P (CMAssign l u).
  Hypothesis HFunc : forall f, P (CMFunc f).
  Hypothesis HDeco : forall f, P (CMDeco f).
  Hypothesis HOver : forall n p i t, P (CMOver n p i t).
  Hypothesis HOther : forall c n, P (CMOther c n).
  Hypothesis HClass : forall n f b r defs, Forall P defs -> P (CMClass (mkcdef n f b r defs)).
  Fixpoint cmember_ind' (m : cmember) : P m :=
    match m with
    | CMAssign l u => HAssign l u
    | CMFunc f => HFunc f
    | CMDeco f => HDeco f
    | CMOver n p i t => HOver n p i t
    | CMOther c n => HOther c n
    | CMClass (mkcdef n f b r defs) =>
      HClass n f b r defs ((fix all (l : list cmember) : Forall P l :=
                              match l with [] => Forall_nil P | x :: r' => Forall_cons x (cmember_ind' x) (all r') end) defs)
    end.
End CmInd.

(* the state part of a step's answer *)
Definition rfst {A B} (r : res (A * B)) : res A := match r with Ok x => Ok (fst x) | Err e => Err e end.

Lemma rfst_bind {A B C D} (r1 r2 : res (A * B)) (k1 k2 : A * B -> res (C * D)) :
  rfst r1 = rfst r2 -> (forall x y, fst x = fst y -> rfst (k1 x) = rfst (k2 y)) -> rfst (bind r1 k1) = rfst (bind r2 k2).
Proof.
  intros E K. destruct r1 as [x|e1], r2 as [y|e2]; cbn in *; try discriminate; [|congruence].
  apply K. congruence.
Qed.

Section Purity.
  Variables (al : aliases) (d : docs) (pref_doc : bool).

  (* C14: the warning flag reaches the state nowhere *)
  Lemma enter_func_pure w1 w2 st f :
    rfst (enter_func al d pref_doc w1 st f) = rfst (enter_func al d pref_doc w2 st f).
  Proof.
    unfold enter_func.
    destruct (is_public st (fn_name f) (fn_fullname f)); cbn [bind]; [|reflexivity].
    destruct (doc_func d (fn_fullname f)); cbn [bind]; [|reflexivity].
    destruct (tenv_of al st); cbn [bind]; [|reflexivity].
    match goal with |- context [bind ?X _] => destruct X as [ps|]; cbn [bind]; [|reflexivity] end.
    destruct (doc_results d (fn_fullname f)) as [rdocs|]; cbn [bind]; [|reflexivity].
    match goal with |- context [bind ?X _] => destruct X as [[rc ramb]|]; cbn [bind]; [|reflexivity] end.
    pose proof (result_warn_pure pref_doc w1 w2 (id_from_stack st (fn_name f)) rc rdocs) as RP.
    destruct (reconcile_results pref_doc w1 (id_from_stack st (fn_name f)) rc rdocs) as [r1 n1].
    destruct (reconcile_results pref_doc w2 (id_from_stack st (fn_name f)) rc rdocs) as [r2 n2].
    cbn [fst] in RP. subst r2. cbn [rfst fst]. do 4 f_equal.
    rewrite !map_map. apply map_ext. intro p. apply param_warn_pure.
  Qed.

  Lemma walk_func_pure w1 w2 st f :
    rfst (walk_func al d pref_doc w1 st f) = rfst (walk_func al d pref_doc w2 st f).
  Proof.
    unfold walk_func. apply rfst_bind; [apply enter_func_pure|]. intros x y E.
    apply rfst_bind.
    - destruct (str_eqb (fn_name f) (K"__init__")); [|cbn; congruence].
      assert (G : forall body (i1 i2 : res (vstate * W)), rfst i1 = rfst i2 ->
                rfst (fold_left (fun acc s =>
                        do cur <- acc;
                        match s with
                        | BAssign lvs ut => do s1 <- enter_assign al d (fst cur) lvs ut; do s2 <- leave_assign (fst s1); Ok (s2, wapp (snd cur) (snd s1))
                        | _ => Ok cur
                        end) body i1) =
                rfst (fold_left (fun acc s =>
                        do cur <- acc;
                        match s with
                        | BAssign lvs ut => do s1 <- enter_assign al d (fst cur) lvs ut; do s2 <- leave_assign (fst s1); Ok (s2, wapp (snd cur) (snd s1))
                        | _ => Ok cur
                        end) body i2)).
      { induction body as [|s r IH]; intros i1 i2 EI; cbn [fold_left]; [exact EI|]. apply IH.
        apply rfst_bind; [exact EI|]. intros a b EA. destruct s; cbn; try congruence.
        rewrite EA. destruct (enter_assign al d (fst b) lvs ut) as [s1|]; cbn; [|reflexivity].
        destruct (leave_assign (fst s1)); reflexivity. }
      apply G. cbn. congruence.
    - intros a b EA. rewrite EA. destruct (leave_func (fst b)); reflexivity.
  Qed.

  Lemma walk_member_pure w1 w2 : forall m st,
    rfst (walk_member al d pref_doc w1 st m) = rfst (walk_member al d pref_doc w2 st m).
  Proof.
    induction m as [l u|f|f|n p i t|c n|n fu b r defs IH] using cmember_ind'; intro st; cbn [walk_member].
    - reflexivity.
    - apply walk_func_pure.
    - apply walk_func_pure.
    - destruct i; [destruct p; [destruct t|]| |]; try reflexivity; apply walk_func_pure.
    - reflexivity.
    - apply rfst_bind; [reflexivity|]. intros x y E. apply rfst_bind.
      + cbn [cd_defs]. revert x y E. induction IH as [|m ms Hm _ IHms]; intros x y E; [cbn; congruence|].
        destruct ((if is_enum_def _ then enum_child m else class_child m) && negb (is_placeholder m)); [|apply IHms; exact E].
        rewrite E. pose proof (Hm (fst y)) as HM.
        destruct (walk_member al d pref_doc w1 (fst y) m) as [s1|], (walk_member al d pref_doc w2 (fst y) m) as [s2|];
          cbn in HM; try discriminate; cbn [bind].
        * apply IHms. cbn. congruence.
        * exact HM.
      + intros a b' EA. rewrite EA. destruct (is_enum_def _); [destruct (leave_enum (fst b'))|destruct (leave_class (fst b'))]; reflexivity.
  Qed.

  Lemma walk_module_pure w1 w2 st m :
    rfst (walk_module al d pref_doc w1 st m) = rfst (walk_module al d pref_doc w2 st m).
  Proof.
    unfold walk_module. apply rfst_bind.
    - assert (G : forall defs (i1 i2 : res (vstate * W)), rfst i1 = rfst i2 ->
        rfst (fold_left (fun acc x => do cur <- acc;
                 if module_child x && negb (is_placeholder x)
                 then do s' <- walk_member al d pref_doc w1 (fst cur) x; Ok (fst s', wapp (snd cur) (snd s')) else Ok cur) defs i1) =
        rfst (fold_left (fun acc x => do cur <- acc;
                 if module_child x && negb (is_placeholder x)
                 then do s' <- walk_member al d pref_doc w2 (fst cur) x; Ok (fst s', wapp (snd cur) (snd s')) else Ok cur) defs i2)).
      { induction defs as [|x r IH]; intros i1 i2 EI; cbn [fold_left]; [exact EI|]. apply IH.
        apply rfst_bind; [exact EI|]. intros a b EA. destruct (module_child x && negb (is_placeholder x)); [|cbn; congruence].
        rewrite EA. pose proof (walk_member_pure w1 w2 x (fst b)) as HM.
        destruct (walk_member al d pref_doc w1 (fst b) x), (walk_member al d pref_doc w2 (fst b) x); cbn in *; congruence. }
      apply G. reflexivity.
    - intros a b EA. rewrite EA. destruct (leave_module (fst b)); reflexivity.
  Qed.
End Purity.

Definition with_warn (v : view) (w : bool) : view :=
  {| v_package := v_package v; v_test_run := v_test_run v; v_pref_doc := v_pref_doc v; v_warn := w; v_glob := v_glob v;
     v_aliases := v_aliases v; v_graph := v_graph v; v_docs := v_docs v |}.

(* what a run leaves behind besides the log *)
Definition output_of (r : res outcome) : res (api * flat) :=
  match r with Ok o => Ok (o_api o, o_flatd o) | Err e => Err e end.

Theorem front_warn_pure v w1 w2 : output_of (front (with_warn v w1)) = output_of (front (with_warn v w2)).
Proof.
  unfold front. cbn [with_warn v_test_run v_glob v_graph v_package v_aliases v_docs v_pref_doc v_warn].
  destruct (get_api_files (v_test_run v) (v_glob v)); [reflexivity|].
  destruct (select_asts (v_graph v) walkable packages) as [trees|]; cbn [bind]; [|reflexivity].
  destruct (get_aliases (v_package v) (v_aliases v) []) as [al|]; cbn [bind]; [|reflexivity].
  assert (G : forall trees (i1 i2 : res (vstate * W)), rfst i1 = rfst i2 ->
    rfst (fold_left (fun acc g => do cur <- acc;
            match g with
            | GMod m => do s' <- walk_module al (v_docs v) (v_pref_doc v) w1 (fst cur) m; Ok (fst s', wapp (snd cur) (snd s'))
            | _ => Err OracleMiss
            end) trees i1) =
    rfst (fold_left (fun acc g => do cur <- acc;
            match g with
            | GMod m => do s' <- walk_module al (v_docs v) (v_pref_doc v) w2 (fst cur) m; Ok (fst s', wapp (snd cur) (snd s'))
            | _ => Err OracleMiss
            end) trees i2)).
  { induction trees0 as [|g r IH]; intros i1 i2 EI; cbn [fold_left]; [exact EI|]. apply IH.
    apply rfst_bind; [exact EI|]. intros a b EA. destruct g; try reflexivity.
    rewrite EA. pose proof (walk_module_pure al (v_docs v) (v_pref_doc v) w1 w2 (fst b) m) as HM.
    destruct (walk_module al (v_docs v) (v_pref_doc v) w1 (fst b) m), (walk_module al (v_docs v) (v_pref_doc v) w2 (fst b) m); cbn in *; congruence. }
  specialize (G trees (Ok (init_vstate, w0)) (Ok (init_vstate, w0)) eq_refl).
  match goal with |- output_of (bind ?X _) = output_of (bind ?Y _) => destruct X as [e1|], Y as [e2|]; cbn in G; try discriminate; cbn [bind output_of] end.
  - inversion G as [G']. rewrite G'. reflexivity.
  - congruence.
Qed.

(* ======================================================================================================== *)
(* stack discipline: every node leaves the frames below it in place (their headers unchanged), and the module     *)
(* dictionary, the re-export map and the current-module fields untouched                                         *)
(* ======================================================================================================== *)
Definition hdr_eq (a b : frame) : Prop :=
  match a, b with
  | FModule m, FModule m' => m_id m = m_id m' /\ m_name m = m_name m' /\ m_doc m = m_doc m' /\ m_qimports m = m_qimports m' /\ m_wimports m = m_wimports m'
  | FClass c, FClass c' => c_id c = c_id c' /\ c_name c = c_name c' /\ c_public c = c_public c'
  | FFunc f, FFunc f' => f = f'
  | FEnum e, FEnum e' => e_id e = e_id e' /\ e_name e = e_name e'
  | FAssign i, FAssign i' => i = i'
  | _, _ => False
  end.

Lemma hdr_refl a : hdr_eq a a.
Proof. destruct a; cbn; auto. Qed.
Lemma hdr_trans a b c : hdr_eq a b -> hdr_eq b c -> hdr_eq a c.
Proof.
  destruct a, b; cbn; try contradiction; destruct c; cbn; try contradiction; intuition congruence.
Qed.
Lemma hdrs_refl s : Forall2 hdr_eq s s.
Proof. induction s; constructor; auto using hdr_refl. Qed.
Lemma hdrs_trans a : forall b c, Forall2 hdr_eq a b -> Forall2 hdr_eq b c -> Forall2 hdr_eq a c.
Proof.
  induction a as [|x a IH]; intros b c H1 H2; inversion H1; subst; inversion H2; subst; constructor; eauto using hdr_trans.
Qed.

(* the fields a node may not touch *)
Definition keeps (st st' : vstate) : Prop :=
  vs_modules st' = vs_modules st /\ vs_rmap st' = vs_rmap st /\ vs_modfull st' = vs_modfull st /\ vs_modname st' = vs_modname st.
Lemma keeps_refl st : keeps st st.
Proof. repeat split. Qed.
Lemma keeps_trans a b c : keeps a b -> keeps b c -> keeps a c.
Proof. unfold keeps. intuition congruence. Qed.

(* a step that leaves the stack in place *)
Definition pres (st st' : vstate) : Prop := Forall2 hdr_eq (vs_stack st) (vs_stack st') /\ keeps st st'.
Lemma pres_refl st : pres st st.
Proof. split; [apply hdrs_refl|apply keeps_refl]. Qed.
Lemma pres_trans a b c : pres a b -> pres b c -> pres a c.
Proof. intros [H1 K1] [H2 K2]. split; [eapply hdrs_trans; eauto|eapply keeps_trans; eauto]. Qed.

(* entering pushes one frame *)
Definition pushed (st st' : vstate) : Prop := (exists fr, vs_stack st' = fr :: vs_stack st) /\ keeps st st'.
(* leaving pops one frame *)
Definition popped (st st' : vstate) : Prop := (exists fr rest, vs_stack st = fr :: rest /\ Forall2 hdr_eq rest (vs_stack st')) /\ keeps st st'.

Lemma push_then_pop a b c : pushed a b -> pres b c -> forall d, popped c d -> pres a d.
Proof.
  intros [[fr E] K1] [H K2] d [[fr' [rest [E' H']]] K3]. split; [|eauto using keeps_trans].
  rewrite E, E' in H. inversion H; subst. eapply hdrs_trans; eauto.
Qed.

Ltac inv_ok := repeat match goal with
  | H : Ok _ = Ok _ |- _ => inversion H; clear H; subst
  | H : Err _ = Ok _ |- _ => discriminate H
  | H : bind ?X _ = Ok _ |- _ => let E := fresh "E" in destruct X eqn:E; cbn [bind] in H; [|discriminate H]
  end.

Ltac split_pairs := repeat match goal with x : (vstate * W)%type |- _ => destruct x end; cbn [fst snd] in *.

Section Stack.
  Variables (al : aliases) (d : docs) (pref_doc warn : bool).

  Lemma enter_func_pushed st f st' w : enter_func al d pref_doc warn st f = Ok (st', w) -> pushed st st'.
  Proof.
    unfold enter_func. intro H. inv_ok.
    match goal with H : (let '(_, _) := ?X in _) = _ |- _ => destruct X as [rc ramb] end.
    match goal with H : (let '(_, _) := ?X in _) = _ |- _ => destruct X as [r n] end. inv_ok.
    split; [eexists; reflexivity|repeat split].
  Qed.

  Lemma enter_class_pushed st c st' w : enter_class al d st c = Ok (st', w) -> pushed st st'.
  Proof.
    unfold enter_class. intro H. inv_ok. destruct (superclasses _ _) as [[sups exc] amb]. inv_ok.
    split; [eexists; reflexivity|repeat split].
  Qed.

  Lemma enter_enum_pushed st c st' : enter_enum d st c = Ok st' -> pushed st st'.
  Proof. unfold enter_enum. intro H. inv_ok. split; [eexists; reflexivity|repeat split]. Qed.

  Lemma enter_assign_pushed st lvs ut st' w : enter_assign al d st lvs ut = Ok (st', w) -> pushed st st'.
  Proof. unfold enter_assign. intro H. inv_ok. split; [eexists; reflexivity|repeat split]. Qed.

  Lemma leave_func_popped st st' : leave_func st = Ok st' -> popped st st'.
  Proof.
    unfold leave_func. destruct (vs_stack st) as [|[m|c|f|e|i] rest] eqn:S; try discriminate.
    destruct rest as [|parent r']; intro H; inv_ok.
    - split; [exists (FFunc f), []; split; [exact S|constructor]|repeat split].
    - split; [|repeat split]. exists (FFunc f), (parent :: r'). split; [exact S|]. cbn [vs_stack].
      constructor; [|apply hdrs_refl]. destruct parent; cbn [hdr_eq]; auto;
        match goal with |- context [if ?b then _ else _] => destruct b end; destruct c; cbn; auto.
  Qed.

  Lemma leave_class_popped st st' : leave_class st = Ok st' -> popped st st'.
  Proof.
    unfold leave_class. destruct (vs_stack st) as [|[m|c|f|e|i] rest] eqn:S; try discriminate.
    destruct rest as [|[m|p|f|e|i] r']; intro H; inv_ok; (split; [|repeat split]);
      eexists _, _; (split; [exact S|]); cbn [vs_stack with_classes set_stack]; try apply hdrs_refl;
      (constructor; [cbn; auto|apply hdrs_refl]).
  Qed.

  Lemma leave_enum_popped st st' : leave_enum st = Ok st' -> popped st st'.
  Proof.
    unfold leave_enum. destruct (vs_stack st) as [|[m|c|f|e|i] rest] eqn:S; try discriminate.
    destruct rest as [|[m|p|f|e'|i] r']; intro H; inv_ok; (split; [|repeat split]);
      eexists _, _; (split; [exact S|]); cbn [vs_stack set_stack]; try apply hdrs_refl;
      (constructor; [cbn; auto|apply hdrs_refl]).
  Qed.

  Definition assign_step (acc : res (list frame * list (str * attr) * list (str * str))) (it : aitem) : res (list frame * list (str * attr) * list (str * str)) :=
    do cur <- acc;
    let '(stack, attrs, insts) := cur in
    match it, stack with
    | AIAttr a, FFunc f :: FClass c :: r2 => Ok (FFunc f :: FClass (cls_add_attr c a) :: r2, dict_set (a_id a) a attrs, insts)
    | AIAttr a, FFunc f :: _ => Err TypeError
    | AIAttr a, FClass c :: r2 => Ok (FClass (cls_add_attr c a) :: r2, dict_set (a_id a) a attrs, insts)
    | AIAttr a, _ => Ok cur
    | AIEnumInst id n, FEnum e :: r2 => Ok (FEnum (enum_add_instance e id n) :: r2, attrs, dict_set id n insts)
    | AIEnumInst _ _, _ => Ok cur
    end.

  Lemma assign_fold_err items e : fold_left assign_step items (Err e) = Err e.
  Proof. induction items; cbn; auto. Qed.

  Lemma assign_fold_pres items : forall init out,
    fold_left assign_step items (Ok init) = Ok out -> Forall2 hdr_eq (fst (fst init)) (fst (fst out)).
  Proof.
    induction items as [|it r IH]; intros [[stack attrs] insts] out H; cbn [fold_left] in H.
    - inversion H; subst. apply hdrs_refl.
    - destruct (assign_step (Ok (stack, attrs, insts)) it) as [[[stack' attrs'] insts']|e] eqn:E; [|rewrite assign_fold_err in H; discriminate].
      apply IH in H. cbn [fst] in *. eapply hdrs_trans; [|exact H]. clear H IH.
      unfold assign_step in E. cbn [bind] in E.
      destruct it as [a|id n]; destruct stack as [|[m|c|f|e|i] r2]; inv_ok; try apply hdrs_refl.
      + constructor; [destruct c; cbn; auto|apply hdrs_refl].
      + destruct r2 as [|[m|c|f'|e|i] r3]; inv_ok. constructor; [reflexivity|]. constructor; [destruct c; cbn; auto|apply hdrs_refl].
      + constructor; [cbn; auto|apply hdrs_refl].
  Qed.

  Lemma leave_assign_popped st st' : leave_assign st = Ok st' -> popped st st'.
  Proof.
    unfold leave_assign. destruct (vs_stack st) as [|[m|c|f|e|items] rest] eqn:S; try discriminate.
    destruct rest as [|parent r']; intro H.
    - inv_ok. split; [exists (FAssign items), []; split; [exact S|constructor]|repeat split].
    - assert (G : forall X, (do out <- fold_left assign_step items (Ok (parent :: r', vs_attrs st, vs_enum_insts st));
                             let '(stack, attrs, insts) := out in X stack attrs insts) = Ok st' ->
                  exists stack attrs insts, Forall2 hdr_eq (parent :: r') stack /\ X stack attrs insts = Ok st').
      { intros X HX. destruct (fold_left assign_step items _) as [[[stack attrs] insts]|] eqn:EF; cbn [bind] in HX; [|discriminate].
        exists stack, attrs, insts. split; [|exact HX]. apply assign_fold_pres in EF. exact EF. }
      destruct parent as [m|c|f|e|i]; try discriminate;
        (apply G in H; destruct H as [stack [attrs [insts [HF HX]]]]; inv_ok;
         split; [exists (FAssign items); eexists; split; [exact S|exact HF]|repeat split]).
  Qed.

  Lemma pushed_popped_pres a b c : pushed a b -> popped b c -> pres a c.
  Proof. intros P Q. eapply push_then_pop; [exact P|apply pres_refl|exact Q]. Qed.

  Lemma walk_func_pres st f st' w : walk_func al d pref_doc warn st f = Ok (st', w) -> pres st st'.
  Proof.
    unfold walk_func. intro H. inv_ok. split_pairs.
    match goal with E : enter_func _ _ _ _ _ _ = Ok (?a, _), E1 : leave_func ?b = Ok _, E0 : _ = Ok (?b, _) |- _ =>
      rename a into s1; rename b into s2; apply enter_func_pushed in E; apply leave_func_popped in E1;
      eapply push_then_pop; [exact E| |exact E1]; clear E E1; rename E0 into EF end.
    destruct (str_eqb (fn_name f) (K"__init__")); [|inv_ok; apply pres_refl].
    match goal with EF : fold_left _ _ (Ok (s1, ?w)) = _ |- _ => generalize dependent w end. revert s1.
    induction (fn_body f) as [|b r IH]; intros s1 w1 E0; cbn [fold_left] in E0; [inv_ok; apply pres_refl|].
    cbn [bind] in E0. destruct b; try (apply IH in E0; exact E0).
    cbn [fst snd] in E0.
    destruct (enter_assign al d s1 lvs ut) as [[sa wa]|] eqn:EA; cbn [bind fst snd] in E0.
    - destruct (leave_assign sa) as [sb|] eqn:EB; cbn [bind] in E0.
      + apply IH in E0. eapply pres_trans; [|exact E0].
        eapply pushed_popped_pres; [eapply enter_assign_pushed; exact EA|apply leave_assign_popped; exact EB].
      + exfalso. clear -E0. induction r as [|x r IHr]; cbn in E0; [discriminate|auto].
    - exfalso. clear -E0. induction r as [|x r IHr]; cbn in E0; [discriminate|auto].
  Qed.

  Lemma walk_member_pres : forall m st st' w, walk_member al d pref_doc warn st m = Ok (st', w) -> pres st st'.
  Proof.
    induction m as [l u|f|f|n p i t|c n|n fu b r defs IH] using cmember_ind'; intros st st' w H; cbn [walk_member] in H.
    - inv_ok. split_pairs.
      eapply pushed_popped_pres; [eapply enter_assign_pushed; eassumption|apply leave_assign_popped; eassumption].
    - eapply walk_func_pres; exact H.
    - eapply walk_func_pres; exact H.
    - destruct i; [destruct p; [destruct t|]| |]; try (inv_ok; apply pres_refl); eapply walk_func_pres; exact H.
    - inv_ok. apply pres_refl.
    - inv_ok. split_pairs. cbn [cd_defs] in *.
      match goal with E0 : _ (?a, ?wa) defs = Ok (?b, _) |- _ => rename a into s1; rename b into s2; rename wa into w1; rename E0 into EG end.
      assert (P1 : pushed st s1).
      { destruct (is_enum_def _); [inv_ok; eapply enter_enum_pushed; eassumption|eapply enter_class_pushed; eassumption]. }
      assert (P3 : popped s2 st').
      { destruct (is_enum_def _); [apply leave_enum_popped|apply leave_class_popped]; eassumption. }
      eapply push_then_pop; [exact P1| |exact P3]. clear P1 P3.
      repeat match goal with E : _ = Ok (s1, _) |- _ => clear E | E : _ = Ok st' |- _ => clear E end.
      rename EG into E0. revert s1 w1 E0. induction IH as [|x xs Hx _ IHxs]; intros s1 w1 E0; [inv_ok; apply pres_refl|].
      destruct ((if is_enum_def _ then enum_child x else class_child x) && negb (is_placeholder x)); [|eapply IHxs; exact E0].
      cbn [fst snd] in E0. destruct (walk_member al d pref_doc warn s1 x) as [[sx wx]|] eqn:EX; cbn [bind fst snd] in E0; [|discriminate].
      eapply pres_trans; [eapply Hx; exact EX|eapply IHxs; exact E0].
  Qed.

  Lemma fold_err_module defs e :
    fold_left (fun acc x => do cur <- acc;
                 if module_child x && negb (is_placeholder x)
                 then do s' <- walk_member al d pref_doc warn (fst cur) x; Ok (fst s', wapp (snd cur) (snd s')) else Ok cur) defs (Err e) = Err e.
  Proof. induction defs; cbn; auto. Qed.

  Lemma module_fold_keeps defs : forall s1 w1 s2 w2,
    fold_left (fun acc x => do cur <- acc;
                 if module_child x && negb (is_placeholder x)
                 then do s' <- walk_member al d pref_doc warn (fst cur) x; Ok (fst s', wapp (snd cur) (snd s')) else Ok cur) defs (Ok (s1, w1)) = Ok (s2, w2) ->
    vs_modules s2 = vs_modules s1.
  Proof.
    induction defs as [|x r IH]; intros s1 w1 s2 w2 EF; cbn [fold_left] in EF; [inv_ok; reflexivity|].
    cbn [bind fst snd] in EF. destruct (module_child x && negb (is_placeholder x)); [|eapply IH; exact EF].
    destruct (walk_member al d pref_doc warn s1 x) as [[sx wx]|] eqn:EX; cbn [bind fst snd] in EF; [|rewrite fold_err_module in EF; discriminate].
    rewrite (IH _ _ _ _ EF). apply walk_member_pres in EX. destruct EX as [_ [KM _]]. exact KM.
  Qed.

  Lemma enter_module_modules st m : vs_modules (enter_module st m) = vs_modules st.
  Proof. unfold enter_module. destruct (imports_of m). reflexivity. Qed.

  (* a module: its own frame is pushed, the members leave it in place, it is popped into the module dictionary *)
  Theorem walk_module_adds st m st' w :
    walk_module al d pref_doc warn st m = Ok (st', w) ->
    exists md, m_id md = dots_to_slashes (mf_fullname m) /\ vs_modules st' = dict_set (m_id md) md (vs_modules st) /\
               Forall2 hdr_eq (vs_stack st) (vs_stack st') /\ vs_rmap st' = vs_rmap (enter_module st m).
  Proof.
    unfold walk_module. intro H. inv_ok. split_pairs.
    match goal with E : fold_left _ _ _ = Ok (?b, _), E0' : leave_module ?b = Ok _ |- _ => rename b into s2; rename E0' into E0 end.
    assert (G : forall defs s1 w1 s2 w2,
      fold_left (fun acc x => do cur <- acc;
                 if module_child x && negb (is_placeholder x)
                 then do s' <- walk_member al d pref_doc warn (fst cur) x; Ok (fst s', wapp (snd cur) (snd s')) else Ok cur) defs (Ok (s1, w1)) = Ok (s2, w2) ->
      pres s1 s2).
    { induction defs as [|x r IH]; intros s1 w1 s2' w2' HF; cbn [fold_left] in HF; [inv_ok; apply pres_refl|].
      cbn [bind fst snd] in HF. destruct (module_child x && negb (is_placeholder x)); [|eapply IH; exact HF].
      destruct (walk_member al d pref_doc warn s1 x) as [[sx wx]|] eqn:EX; cbn [bind fst snd] in HF; [|rewrite fold_err_module in HF; discriminate].
      eapply pres_trans; [eapply walk_member_pres; exact EX|eapply IH; exact HF]. }
    apply G in E. destruct E as [HS [KM [KR [KF KN]]]].
    unfold enter_module in HS. destruct (imports_of m) as [qis wis]. cbn [vs_stack] in HS.
    inversion HS as [|a b ra rb Hab Hrest]; subst.
    unfold leave_module in E0. rewrite <- H1 in E0. destruct b as [md| | | |]; try discriminate. inv_ok.
    cbn [hdr_eq] in Hab. destruct Hab as [Hid _]. cbn [m_id] in Hid.
    exists md. split; [congruence|]. cbn [vs_modules vs_stack vs_rmap]. split; [|split].
    - f_equal. unfold enter_module in KM. destruct (imports_of m). exact KM.
    - exact Hrest.
    - exact KR.
  Qed.
End Stack.

(* ======================================================================================================== *)
(* C15 / C12 at the level of the whole run: the modules of the API object are exactly walked trees, and a tree is  *)
(* walked only if its file passed the filter of the discovery loop                                              *)
(* ======================================================================================================== *)
Lemma dict_set_in {V} k (v : V) dct kv : In kv (dict_set k v dct) -> In kv dct \/ kv = (k, v) \/ (exists v0, In (fst kv, v0) dct /\ snd kv = v /\ str_eqb k (fst kv) = true).
Proof.
  induction dct as [|[k' v'] r IH]; cbn.
  - intros [H|[]]; right; left; auto.
  - destruct (str_eqb k k') eqn:E.
    + intros [H|H]; [|left; right; exact H]. subst kv. right. right. exists v'. cbn. auto.
    + intros [H|H]; [left; left; exact H|]. destruct (IH H) as [H1|[H1|[v0 [H1 [H2 H3]]]]]; [left; right; exact H1|right; left; exact H1|].
      right. right. exists v0. auto.
Qed.

Lemma str_eqb_true_eq a b : str_eqb a b = true -> a = b.
Proof.
  revert b; induction a as [|x a IH]; intros [|y b] H; cbn in H; try discriminate; [reflexivity|].
  apply andb_true_iff in H as [H1 H2]. apply Ascii.eqb_eq in H1. subst. f_equal. auto.
Qed.

Definition tree_ok (trees : list gentry) (kv : str * module_) : Prop :=
  fst kv = m_id (snd kv) /\ exists m, In (GMod m) trees /\ m_id (snd kv) = dots_to_slashes (mf_fullname m).

Lemma front_fold_modules al dcs p w trees : forall (done : list gentry) st lg st' lg',
  Forall (tree_ok (done ++ trees)) (vs_modules st) ->
  fold_left (fun acc g => do cur <- acc;
              match g with
              | GMod m => do s' <- walk_module al dcs p w (fst cur) m; Ok (fst s', wapp (snd cur) (snd s'))
              | _ => Err OracleMiss
              end) trees (Ok (st, lg)) = Ok (st', lg') ->
  Forall (tree_ok (done ++ trees)) (vs_modules st').
Proof.
  induction trees as [|g r IH]; intros done st lg st' lg' Inv H; cbn [fold_left] in H.
  - inversion H; subst. exact Inv.
  - cbn [bind fst snd] in H. destruct g as [m|pth fn|k].
    + destruct (walk_module al dcs p w st m) as [[s1 w1]|] eqn:EW; cbn [bind fst snd] in H.
      * replace (done ++ GMod m :: r) with ((done ++ [GMod m]) ++ r) in * by (rewrite <- app_assoc; reflexivity).
        eapply IH; [|exact H].
        apply walk_module_adds in EW. destruct EW as [md [Hid [HM _]]]. rewrite HM.
        apply Forall_forall. intros kv Hin. apply dict_set_in in Hin.
        destruct Hin as [Hin|[Hin|[v0 [Hin [Hs Hk]]]]].
        -- rewrite Forall_forall in Inv. exact (Inv kv Hin).
        -- subst kv. split; [reflexivity|]. exists m. split; [|exact Hid]. apply in_or_app. left. apply in_or_app. right. left. reflexivity.
        -- destruct kv as [k v]. cbn in *. subst v. apply str_eqb_true_eq in Hk. subst k. split; [reflexivity|].
           exists m. split; [|exact Hid]. apply in_or_app. left. apply in_or_app. right. left. reflexivity.
      * exfalso. clear -H. induction r as [|x r IHr]; cbn in H; [discriminate|auto].
    + exfalso. clear -H. induction r as [|x r IHr]; cbn in H; [discriminate|auto].
    + exfalso. clear -H. induction r as [|x r IHr]; cbn in H; [discriminate|auto].
Qed.

Lemma select_asts_spec graph walkable packages trees g :
  select_asts graph walkable packages = Ok trees -> In g trees ->
  In g graph /\ exists pth, gentry_path g = Ok pth /\
    ((ends_with t_init_file pth = true /\ In (init_package_path pth) packages) \/
     (ends_with t_init_file pth = false /\ In pth walkable)).
Proof.
  unfold select_asts. destruct (mapM gentry_path graph) as [paths|] eqn:EP; cbn [bind]; [|discriminate].
  intro H. inversion H; subst; clear H. rewrite map_app, in_app_iff, !in_map_iff.
  assert (C : forall x, In x (combine graph paths) -> In (fst x) graph /\ gentry_path (fst x) = Ok (snd x)).
  { revert paths EP. induction graph as [|g0 gr IH]; intros paths EP [a b] Hin; cbn in *.
    - inversion EP; subst. destruct Hin.
    - destruct (gentry_path g0) as [p0|] eqn:E0; cbn [bind] in EP; [|discriminate].
      destruct (mapM gentry_path gr) as [ps|] eqn:E1; cbn [bind] in EP; [|discriminate]. inversion EP; subst.
      cbn in Hin. destruct Hin as [Hin|Hin]; [inversion Hin; subst; cbn; auto|].
      destruct (IH ps eq_refl (a, b) Hin) as [H1 H2]. cbn in *. auto. }
  intros [[[a b] [Hf Hin]]|[[a b] [Hf Hin]]]; apply filter_In in Hin as [Hin Hc]; destruct (C _ Hin) as [C1 C2]; cbn in *; subst a;
    (split; [exact C1|]); exists b; (split; [exact C2|]); apply andb_true_iff in Hc as [Hc1 Hc2].
  - left. split; [exact Hc1|]. apply Proofs.DiscoverProofs.mem_str_In. exact Hc2.
  - right. apply negb_true_iff in Hc1. split; [exact Hc1|]. apply Proofs.DiscoverProofs.mem_str_In. exact Hc2.
Qed.

Theorem front_modules_are_filtered v o md :
  front v = Ok o -> In md (api_modules (o_api o)) ->
  exists m, In (GMod m) (v_graph v) /\ m_id md = dots_to_slashes (mf_fullname m) /\
    let '(walkable, packages) := discover (v_test_run v) (v_glob v) in
    ((ends_with t_init_file (mf_path m) = true /\ In (init_package_path (mf_path m)) packages) \/
     (ends_with t_init_file (mf_path m) = false /\ In (mf_path m) walkable)).
Proof.
  unfold front, get_api_files. destruct (discover (v_test_run v) (v_glob v)) as [wk pk] eqn:ED.
  destruct wk as [|wk0 wk']; [discriminate|].
  destruct (select_asts (v_graph v) (wk0 :: wk') pk) as [trees|] eqn:ES; cbn [bind]; [|discriminate].
  destruct (get_aliases (v_package v) (v_aliases v) []) as [al|]; cbn [bind]; [|discriminate].
  match goal with |- context [fold_left ?F trees ?I] => destruct (fold_left F trees I) as [[st lg]|] eqn:EF end; cbn [bind]; [|discriminate].
  intro H. inversion H; subst; clear H. cbn [o_api api_modules fst]. intro Hin.
  apply in_map_iff in Hin as [[k md'] [Hmd Hin]]. cbn in Hmd. subst md'.
  pose proof (front_fold_modules al (v_docs v) (v_pref_doc v) (v_warn v) trees [] init_vstate w0 st lg (Forall_nil _) EF) as Inv.
  rewrite Forall_forall in Inv. destruct (Inv _ Hin) as [_ [m [Hm Hid]]]. cbn in Hm, Hid.
  destruct (select_asts_spec _ _ _ _ _ ES Hm) as [HG [pth [HP HC]]]. cbn in HP. inversion HP; subst pth.
  exists m. split; [exact HG|]. split; [exact Hid|]. exact HC.
Qed.

(* without the test-run flag no module of the API object comes from a file in a directory named test, tests or docs *)
Theorem no_module_from_excluded_directories v o md :
  front v = Ok o -> v_test_run v = false -> In md (api_modules (o_api o)) ->
  exists m, In (GMod m) (v_graph v) /\ m_id md = dots_to_slashes (mf_fullname m) /\
    ((ends_with t_init_file (mf_path m) = false /\ In (mf_path m) (v_glob v) /\ in_excluded_dir (mf_path m) = false) \/
     (ends_with t_init_file (mf_path m) = true /\
      exists f, In f (v_glob v) /\ in_excluded_dir f = false /\ is_init_file f = true /\ parent_dir f = init_package_path (mf_path m))).
Proof.
  intros HF TR Hin. destruct (front_modules_are_filtered v o md HF Hin) as [m [HG [Hid HC]]].
  exists m. split; [exact HG|]. split; [exact Hid|].
  destruct (discover (v_test_run v) (v_glob v)) as [wk pk] eqn:ED. destruct HC as [[E P]|[E P]].
  - right. split; [exact E|]. assert (P' : In (init_package_path (mf_path m)) (snd (discover (v_test_run v) (v_glob v)))) by (rewrite ED; exact P).
    apply package_iff in P'. destruct P' as [f [F1 [F2 [F3 F4]]]]. exists f. rewrite TR in F2.
    destruct F2 as [F2|F2]; [discriminate|]. auto.
  - left. split; [exact E|]. assert (P' : In (mf_path m) (fst (discover (v_test_run v) (v_glob v)))) by (rewrite ED; exact P).
    apply walkable_iff in P'. destruct P' as [F1 [F2 F3]]. rewrite TR in F2. destruct F2 as [F2|F2]; [discriminate|]. auto.
Qed.

(* ======================================================================================================== *)
(* exact stack discipline: a node changes only the frame it was entered on (header preserved); everything below   *)
(* stays as it is                                                                                               *)
(* ======================================================================================================== *)
Definition top_only (st st' : vstate) : Prop :=
  exists top rest top', vs_stack st = top :: rest /\ vs_stack st' = top' :: rest /\ hdr_eq top top'.

Definition cls_with_attrs (c : cls) (ats : list attr) : cls :=
  mkcls (c_id c) (c_name c) (c_supers c) (c_public c) (c_doc c) (c_ctor c) (c_ctor_fulldoc c) (c_exc c) (c_reexported_by c)
        ats (c_methods c) (c_classes c) (c_tparams c).
Definition enum_with (e : enum_) (ins : list (str * str)) : enum_ :=
  {| e_id := e_id e; e_name := e_name e; e_doc := e_doc e; e_instances := ins |}.
(* the only thing an assignment statement changes: the attribute list of a class, the instance list of an enum *)
Definition attrs_only (a b : frame) : Prop :=
  match a with
  | FClass c => exists ats, b = FClass (cls_with_attrs c ats)
  | FEnum e => exists ins, b = FEnum (enum_with e ins)
  | _ => b = a
  end.
Lemma attrs_only_refl a : attrs_only a a.
Proof. destruct a as [m|c|f|e|i]; cbn; auto; [exists (c_attrs c); destruct c; reflexivity|exists (e_instances e); destruct e; reflexivity]. Qed.
Lemma attrs_only_trans a b c : attrs_only a b -> attrs_only b c -> attrs_only a c.
Proof.
  destruct a as [m|k|f|e|i]; cbn; intros H1 H2.
  - subst b. exact H2.
  - destruct H1 as [x H1]. subst b. cbn in H2. destruct H2 as [y H2]. subst c. exists y. reflexivity.
  - subst b. exact H2.
  - destruct H1 as [x H1]. subst b. cbn in H2. destruct H2 as [y H2]. subst c. exists y. reflexivity.
  - subst b. exact H2.
Qed.
Lemma attrs_only_hdr a b : attrs_only a b -> hdr_eq a b.
Proof.
  destruct a as [m|k|f|e|i]; cbn [attrs_only]; intro H.
  - subst b. apply hdr_refl.
  - destruct H as [x H]. subst b. cbn. auto.
  - subst b. apply hdr_refl.
  - destruct H as [x H]. subst b. cbn. auto.
  - subst b. apply hdr_refl.
Qed.
Lemma add_attr_only c a : attrs_only (FClass c) (FClass (cls_add_attr c a)).
Proof. cbn. exists (c_attrs c ++ [a]). reflexivity. Qed.
Lemma add_inst_only e i n : attrs_only (FEnum e) (FEnum (enum_add_instance e i n)).
Proof. cbn. exists (e_instances e ++ [(i, n)]). reflexivity. Qed.

Section Exact.
  Variables (al : aliases) (d : docs) (pref_doc warn : bool).

  Lemma assign_step_shape items : forall stack attrs insts out,
    fold_left assign_step items (Ok (stack, attrs, insts)) = Ok out ->
    fst (fst out) = stack \/
    (exists a a' r, stack = a :: r /\ fst (fst out) = a' :: r /\ attrs_only a a' /\ (forall f, a <> FFunc f)) \/
    (exists f b b' r, stack = FFunc f :: b :: r /\ fst (fst out) = FFunc f :: b' :: r /\ attrs_only b b').
  Proof.
    induction items as [|it r IH]; intros stack attrs insts out H; cbn [fold_left] in H.
    - inversion H; subst. left. reflexivity.
    - destruct (assign_step (Ok (stack, attrs, insts)) it) as [[[stack' attrs'] insts']|e] eqn:E; [|rewrite assign_fold_err in H; discriminate].
      apply IH in H. unfold assign_step in E. cbn [bind] in E.
      destruct it as [a|id n]; destruct stack as [|[m|c|f|e|i] r2]; inv_ok; try exact H.
      + (* attribute on a class *)
        right. left. destruct H as [H|[H|H]].
        * exists (FClass c), (FClass (cls_add_attr c a)), r2. rewrite H. split; [reflexivity|]. split; [reflexivity|]. split; [apply add_attr_only|discriminate].
        * destruct H as [x [x' [r' [E1 [E2 [E3 E4]]]]]]. inversion E1; subst. exists (FClass c), x', r'.
          split; [reflexivity|]. split; [exact E2|]. split; [|discriminate].
          eapply attrs_only_trans; [|exact E3]. apply add_attr_only.
        * destruct H as [f [b [b' [r' [E1 _]]]]]. discriminate E1.
      + (* attribute in __init__: the class below the function *)
        destruct r2 as [|[m|c|f'|e|i] r3]; inv_ok. right. right. destruct H as [H|[H|H]].
        * exists f, (FClass c), (FClass (cls_add_attr c a)), r3. rewrite H. split; [reflexivity|]. split; [reflexivity|]. apply add_attr_only.
        * destruct H as [x [x' [r' [E1 [E2 [E3 E4]]]]]]. inversion E1; subst. exfalso. eapply E4. reflexivity.
        * destruct H as [f0 [b [b' [r' [E1 [E2 E3]]]]]]. inversion E1; subst. exists f0, (FClass c), b', r'.
          split; [reflexivity|]. split; [exact E2|]. eapply attrs_only_trans; [|exact E3]. apply add_attr_only.
      + (* enum instance *)
        right. left. destruct H as [H|[H|H]].
        * exists (FEnum e), (FEnum (enum_add_instance e id n)), r2. rewrite H. split; [reflexivity|]. split; [reflexivity|]. split; [apply add_inst_only|discriminate].
        * destruct H as [x [x' [r' [E1 [E2 [E3 E4]]]]]]. inversion E1; subst. exists (FEnum e), x', r'.
          split; [reflexivity|]. split; [exact E2|]. split; [|discriminate]. eapply attrs_only_trans; [|exact E3]. apply add_inst_only.
        * destruct H as [f [b [b' [r' [E1 _]]]]]. discriminate E1.
  Qed.

  Lemma assign_fold_module items : forall f m r A I out,
    fold_left assign_step items (Ok (FFunc f :: FModule m :: r, A, I)) = Ok out -> fst (fst out) = FFunc f :: FModule m :: r.
  Proof.
    induction items as [|it its IH]; intros f m r A I out H; cbn [fold_left] in H; [inversion H; reflexivity|].
    unfold assign_step at 2 in H. cbn [bind] in H. destruct it; [rewrite assign_fold_err in H; discriminate|].
    eapply IH. exact H.
  Qed.

  (* an assignment statement: enter, leave *)
  Lemma assign_pair st lvs ut s1 w1 s2 :
    enter_assign al d st lvs ut = Ok (s1, w1) -> leave_assign s1 = Ok s2 ->
    vs_stack s2 = vs_stack st \/
    (exists a a' r, vs_stack st = a :: r /\ vs_stack s2 = a' :: r /\ attrs_only a a' /\ (forall f, a <> FFunc f)) \/
    (exists f b b' r, vs_stack st = FFunc f :: b :: r /\ vs_stack s2 = FFunc f :: b' :: r /\ attrs_only b b').
  Proof.
    intros HE HL. unfold enter_assign in HE. inv_ok.
    match goal with x : (list aitem * bool)%type |- _ => destruct x as [its amb] end. cbn [fst snd] in *.
    unfold leave_assign in HL. cbn [vs_stack push set_stack] in HL.
    destruct (vs_stack st) as [|parent r'] eqn:S; [inv_ok; left; reflexivity|].
    assert (G : forall X, (do out <- fold_left assign_step its (Ok (parent :: r', vs_attrs st, vs_enum_insts st));
                           let '(stack, attrs, insts) := out in X stack attrs insts) = Ok s2 ->
                exists out, fold_left assign_step its (Ok (parent :: r', vs_attrs st, vs_enum_insts st)) = Ok out /\
                            X (fst (fst out)) (snd (fst out)) (snd out) = Ok s2).
    { intros X HX. destruct (fold_left assign_step its _) as [[[stack attrs] insts]|] eqn:EF; cbn [bind] in HX; [|discriminate].
      eexists. split; [reflexivity|exact HX]. }
    destruct parent as [m|c|f|e|i]; try discriminate;
      (apply G in HL; destruct HL as [out [HF HX]]; inv_ok; cbn [vs_stack]; apply assign_step_shape in HF; exact HF).
  Qed.

  Lemma enter_func_frame st f st' w : enter_func al d pref_doc warn st f = Ok (st', w) ->
    exists fn, vs_stack st' = FFunc fn :: vs_stack st /\ f_name fn = fn_name f /\ f_id fn = id_from_stack st (fn_name f).
  Proof.
    unfold enter_func. intro H. inv_ok.
    match goal with H : (let '(_, _) := ?X in _) = _ |- _ => destruct X as [rc ramb] end.
    match goal with H : (let '(_, _) := ?X in _) = _ |- _ => destruct X as [r n] end. inv_ok.
    eexists. split; [reflexivity|]. split; reflexivity.
  Qed.

  Definition add_fn (top : frame) (fn : func) : frame :=
    match top with
    | FModule m => FModule (mod_add_function m fn)
    | FClass c => if str_eqb (f_name fn) (K"__init__") then FClass (cls_set_ctor c fn) else FClass (cls_add_method c fn)
    | other => other
    end.
  Lemma add_fn_hdr top fn : hdr_eq top (add_fn top fn).
  Proof. destruct top; cbn; auto. destruct (str_eqb _ _); destruct c; cbn; auto. Qed.

  (* a function node adds one function (named as in the source, id = <owner id>/<name>) to the frame it is entered on *)
  Lemma walk_func_exact st f st' w top rest :
    walk_func al d pref_doc warn st f = Ok (st', w) -> vs_stack st = top :: rest ->
    exists fn top1, f_name fn = fn_name f /\ f_id fn = id_from_stack st (fn_name f) /\ attrs_only top top1 /\
                    (forall m, top = FModule m -> top1 = top) /\
                    vs_stack st' = add_fn top1 fn :: rest.
  Proof.
    unfold walk_func. intros H S. inv_ok. split_pairs.
    match goal with E : enter_func _ _ _ _ _ _ = Ok (?a, _), E1 : leave_func ?b = Ok _, E0 : _ = Ok (?b, _) |- _ =>
      rename a into s1; rename b into s2; rename E into EE; rename E1 into EL; rename E0 into EF end.
    apply enter_func_frame in EE. destruct EE as [fn [S1 [N1 I1]]]. rewrite S in S1.
    assert (INV : exists top1, vs_stack s2 = FFunc fn :: top1 :: rest /\ attrs_only top top1 /\ (forall m, top = FModule m -> top1 = top)).
    { destruct (str_eqb (fn_name f) (K"__init__")); [|inv_ok; exists top; split; [exact S1|split; [apply attrs_only_refl|auto]]].
      assert (G : forall body sa wa, (exists ta, vs_stack sa = FFunc fn :: ta :: rest /\ attrs_only top ta /\ (forall m, top = FModule m -> ta = top)) ->
                fold_left (fun acc s => do cur <- acc;
                    match s with
                    | BAssign lvs ut => do s1 <- enter_assign al d (fst cur) lvs ut; do s2 <- leave_assign (fst s1); Ok (s2, wapp (snd cur) (snd s1))
                    | _ => Ok cur
                    end) body (Ok (sa, wa)) = Ok (s2, w) ->
                exists top1, vs_stack s2 = FFunc fn :: top1 :: rest /\ attrs_only top top1 /\ (forall m, top = FModule m -> top1 = top)).
      { induction body as [|b r IH]; intros sa wa [ta [Sa [Ha Ma]]] HF; cbn [fold_left] in HF; [inv_ok; exists ta; auto|].
        cbn [bind fst snd] in HF. destruct b; try (eapply IH; [|exact HF]; exists ta; auto).
        destruct (enter_assign al d sa lvs ut) as [[sb wb]|] eqn:EA; cbn [bind fst snd] in HF.
        - destruct (leave_assign sb) as [sc|] eqn:EB; cbn [bind] in HF.
          + eapply IH; [|exact HF]. destruct (assign_pair _ _ _ _ _ _ EA EB) as [P|[P|P]].
            * exists ta. rewrite P. auto.
            * destruct P as [a [a' [r' [P1 [P2 [P3 P4]]]]]]. rewrite Sa in P1. inversion P1; subst. exfalso. eapply P4. reflexivity.
            * destruct P as [f0 [b0 [b' [r' [P1 [P2 P3]]]]]]. rewrite Sa in P1. inversion P1; subst. exists b'. split; [exact P2|]. split; [eapply attrs_only_trans; eauto|].
              intros m Hm. subst top. cbn in Ha. subst b0. cbn in P3. subst b'. reflexivity.
          + exfalso. clear -HF. induction r as [|x r IHr]; cbn in HF; [discriminate|auto].
        - exfalso. clear -HF. induction r as [|x r IHr]; cbn in HF; [discriminate|auto]. }
      eapply G; [|exact EF]. exists top. split; [exact S1|split; [apply attrs_only_refl|auto]]. }
    destruct INV as [top1 [S2 [H1 M1]]].
    exists fn, top1. split; [exact N1|]. split; [exact I1|]. split; [exact H1|]. split; [exact M1|].
    unfold leave_func in EL. rewrite S2 in EL. inv_ok. cbn [vs_stack]. unfold add_fn. destruct top1; reflexivity.
  Qed.

  Lemma hdr_not_func a b : hdr_eq a b -> (forall f, a <> FFunc f) -> (forall f, b <> FFunc f).
  Proof. destruct a, b; cbn; try contradiction; intros; try discriminate. exfalso. eapply H0. reflexivity. Qed.

  Lemma enter_class_frame st c st' w : enter_class al d st c = Ok (st', w) ->
    exists cl, vs_stack st' = FClass cl :: vs_stack st /\ c_name cl = cd_name c /\ c_id cl = id_from_stack st (cd_name c).
  Proof.
    unfold enter_class. intro H. inv_ok. destruct (superclasses _ _) as [[sups exc] amb]. inv_ok.
    eexists. split; [reflexivity|]. split; reflexivity.
  Qed.
  Lemma enter_enum_frame st c st' : enter_enum d st c = Ok st' ->
    exists e, vs_stack st' = FEnum e :: vs_stack st /\ e_name e = cd_name c /\ e_id e = id_from_stack st (cd_name c).
  Proof. unfold enter_enum. intro H. inv_ok. eexists. split; [reflexivity|]. split; reflexivity. Qed.

  Definition add_cls (top : frame) (c : cls) : frame :=
    match top with FModule m => FModule (mod_add_class m c) | FClass p => FClass (cls_add_class p c) | other => other end.
  Definition add_enum (top : frame) (e : enum_) : frame :=
    match top with FModule m => FModule (mod_add_enum m e) | other => other end.
  Lemma add_cls_hdr top c : hdr_eq top (add_cls top c).
  Proof. destruct top as [m|p|f|e|i]; cbn; auto; destruct p; cbn; auto. Qed.
  Lemma add_enum_hdr top e : hdr_eq top (add_enum top e).
  Proof. destruct top; cbn; auto. Qed.

  Lemma leave_class_exact st st' c top rest : leave_class st = Ok st' -> vs_stack st = FClass c :: top :: rest ->
    vs_stack st' = add_cls top c :: rest.
  Proof. unfold leave_class. intros H S. rewrite S in H. destruct top; inv_ok; reflexivity. Qed.
  Lemma leave_enum_exact st st' e top rest : leave_enum st = Ok st' -> vs_stack st = FEnum e :: top :: rest ->
    vs_stack st' = add_enum top e :: rest.
  Proof. unfold leave_enum. intros H S. rewrite S in H. destruct top; inv_ok; reflexivity. Qed.

  (* what one member does to the frame it is entered on *)
  Inductive effect := EffNone | EffFunc (fn : func) | EffClass (c : cls) | EffEnum (e : enum_) | EffInner.
  Definition apply_effect (top1 : frame) (e : effect) (top' : frame) : Prop :=
    match e with
    | EffNone | EffInner => top' = top1
    | EffFunc fn => top' = add_fn top1 fn
    | EffClass c => top' = add_cls top1 c
    | EffEnum en => top' = add_enum top1 en
    end.

  (* the function a member stands for: a definition, a decorated definition, the implementation of an overloaded
     definition, or the getter of a property that has a setter or deleter *)
  Definition member_func (m : cmember) : option fdef :=
    match m with
    | CMFunc f | CMDeco f => Some f
    | CMOver _ p impl item0 =>
      match impl with
      | OIFunc f => Some f
      | OIOther => None
      | OINone => match p, item0 with true, OTDeco f => Some f | _, _ => None end
      end
    | _ => None
    end.

  (* what one member does to the frame it is entered on: assignments change attribute lists only (top1), then at most one
     function, class or enum is added; everything below stays as it is *)
  Lemma walk_member_exact : forall m st st' w top rest,
    walk_member al d pref_doc warn st m = Ok (st', w) -> vs_stack st = top :: rest -> (forall f, top <> FFunc f) ->
    exists top' top1 eff, vs_stack st' = top' :: rest /\ hdr_eq top top' /\ attrs_only top top1 /\ apply_effect top1 eff top' /\
      match member_func m, m, eff with
      | Some f, _, EffFunc fn => f_name fn = fn_name f /\ f_id fn = id_from_stack st (fn_name f)
      | Some _, _, _ => False
      | None, CMClass c, EffClass cl => is_enum_def c = false /\ c_name cl = cd_name c /\ c_id cl = id_from_stack st (cd_name c) /\ top1 = top
      | None, CMClass c, EffEnum e => is_enum_def c = true /\ e_name e = cd_name c /\ e_id e = id_from_stack st (cd_name c) /\ top1 = top
      | None, CMClass _, _ => False
      | None, CMAssign _ _, EffInner => True
      | None, CMAssign _ _, _ => False
      | None, _, EffNone => top1 = top
      | None, _, _ => False
      end.
  Proof.
    induction m as [l u|f|f|n p i t|c n|n fu b r defs IH] using cmember_ind'; intros st st' w top rest H S NF; cbn [walk_member] in H.
    - (* assignment *)
      inv_ok. split_pairs.
      match goal with EA : enter_assign _ _ _ _ _ = Ok (?a, _), EB : leave_assign ?a = Ok _ |- _ => destruct (assign_pair _ _ _ _ _ _ EA EB) as [P|[P|P]] end.
      + exists top, top, EffInner. rewrite P, S. split; [reflexivity|]. split; [apply hdr_refl|]. split; [apply attrs_only_refl|]. split; [reflexivity|exact I].
      + destruct P as [a [a' [r' [P1 [P2 [P3 _]]]]]]. rewrite S in P1. inversion P1; subst. exists a', a', EffInner.
        split; [exact P2|]. split; [apply attrs_only_hdr; exact P3|]. split; [exact P3|]. split; [reflexivity|exact I].
      + destruct P as [f0 [b0 [b' [r' [P1 _]]]]]. rewrite S in P1. inversion P1; subst. exfalso. eapply NF. reflexivity.
    - destruct (walk_func_exact _ _ _ _ _ _ H S) as [fn [top1 [N1 [I1 [H1 [M1 S1]]]]]].
      exists (add_fn top1 fn), top1, (EffFunc fn). split; [exact S1|]. split; [eapply hdr_trans; [apply attrs_only_hdr; exact H1|apply add_fn_hdr]|].
      split; [exact H1|]. split; [reflexivity|]. cbn. split; assumption.
    - destruct (walk_func_exact _ _ _ _ _ _ H S) as [fn [top1 [N1 [I1 [H1 [M1 S1]]]]]].
      exists (add_fn top1 fn), top1, (EffFunc fn). split; [exact S1|]. split; [eapply hdr_trans; [apply attrs_only_hdr; exact H1|apply add_fn_hdr]|].
      split; [exact H1|]. split; [reflexivity|]. cbn. split; assumption.
    - assert (FUN : forall f, walk_func al d pref_doc warn st f = Ok (st', w) ->
                exists top' top1 eff, vs_stack st' = top' :: rest /\ hdr_eq top top' /\ attrs_only top top1 /\ apply_effect top1 eff top' /\
                  match eff with EffFunc fn => f_name fn = fn_name f /\ f_id fn = id_from_stack st (fn_name f) | _ => False end).
      { intros f HF. destruct (walk_func_exact _ _ _ _ _ _ HF S) as [fn [top1 [N1 [I1 [H1 [M1 S1]]]]]].
        exists (add_fn top1 fn), top1, (EffFunc fn). split; [exact S1|]. split; [eapply hdr_trans; [apply attrs_only_hdr; exact H1|apply add_fn_hdr]|].
        split; [exact H1|]. split; [reflexivity|]. split; assumption. }
      destruct i as [|f|]; [destruct p; [destruct t as [|f|]|]| |]; cbn [member_func];
        try (inv_ok; exists top, top, EffNone; split; [exact S|]; split; [apply hdr_refl|]; split; [apply attrs_only_refl|]; split; reflexivity);
        (destruct (FUN _ H) as [t' [t1 [ef [A1 [A2 [A3 [A4 A5]]]]]]]; exists t', t1, ef; repeat (split; [assumption|]); destruct ef; try contradiction; exact A5).
    - inv_ok. exists top, top, EffNone. split; [exact S|]. split; [apply hdr_refl|]. split; [apply attrs_only_refl|]. split; reflexivity.
    - (* class or enum *)
      inv_ok. split_pairs. cbn [cd_defs cd_name member_func] in *.
      match goal with E0 : _ (?a, ?wa) defs = Ok (?b, _) |- _ => rename a into s1; rename b into s2; rename wa into w1; rename E0 into EG end.
      (* the body keeps [top; rest] exactly and the header of the entered frame *)
      assert (BODY : forall fr, vs_stack s1 = fr :: top :: rest -> (forall f, fr <> FFunc f) ->
                     exists fr', vs_stack s2 = fr' :: top :: rest /\ hdr_eq fr fr').
      { clear -EG IH. revert s1 w1 EG. induction IH as [|x xs Hx _ IHxs]; intros s1 w1 EG fr S1 NF1; [inv_ok; exists fr; split; [exact S1|apply hdr_refl]|].
        destruct ((if is_enum_def _ then enum_child x else class_child x) && negb (is_placeholder x)); [|eapply IHxs; eauto].
        cbn [fst snd] in EG. destruct (walk_member al d pref_doc warn s1 x) as [[sx wx]|] eqn:EX; cbn [bind fst snd] in EG; [|discriminate].
        destruct (Hx _ _ _ _ _ EX S1 NF1) as [fr1 [fr0 [eff [S2 [H2 _]]]]].
        destruct (IHxs _ _ EG fr1 S2 (hdr_not_func _ _ H2 NF1)) as [fr' [S3 H3]].
        exists fr'. split; [exact S3|eapply hdr_trans; eauto]. }
      destruct (is_enum_def (mkcdef n fu b r defs)) eqn:EN.
      + inv_ok. match goal with E : enter_enum _ _ _ = Ok _ |- _ => apply enter_enum_frame in E; destruct E as [e0 [S1 [N1 I1]]] end.
        rewrite S in S1. destruct (BODY (FEnum e0) S1 ltac:(discriminate)) as [fr' [S2 H2]].
        destruct fr' as [ | |  |e1| ]; cbn in H2; try contradiction.
        match goal with E : leave_enum _ = Ok _ |- _ => pose proof (leave_enum_exact _ _ _ _ _ E S2) as S3 end.
        exists (add_enum top e1), top, (EffEnum e1). split; [exact S3|]. split; [apply add_enum_hdr|]. split; [apply attrs_only_refl|].
        split; [reflexivity|]. destruct H2 as [Hi Hn]. cbn [cd_name] in *. repeat split; congruence.
      + match goal with E : enter_class _ _ _ _ = Ok _ |- _ => apply enter_class_frame in E; destruct E as [c0 [S1 [N1 I1]]] end.
        rewrite S in S1. destruct (BODY (FClass c0) S1 ltac:(discriminate)) as [fr' [S2 H2]].
        destruct fr' as [ |c1| | | ]; cbn in H2; try contradiction.
        match goal with E : leave_class _ = Ok _ |- _ => pose proof (leave_class_exact _ _ _ _ _ E S2) as S3 end.
        exists (add_cls top c1), top, (EffClass c1). split; [exact S3|]. split; [apply add_cls_hdr|]. split; [apply attrs_only_refl|].
        split; [reflexivity|]. destruct H2 as [Hi [Hn _]]. cbn [cd_name] in *. repeat split; congruence.
  Qed.
End Exact.

(* ======================================================================================================== *)
(* C03 / C12: the inventory of a module - every function, class and enum among the module's walked definitions    *)
(* is registered in the module record exactly once, in source order, under its name and the id <module id>/<name> *)
(* ======================================================================================================== *)
Definition walked (m : mfile) : list cmember := filter (fun x => module_child x && negb (is_placeholder x)) (mf_defs m).
Definition member_funcs (l : list cmember) : list fdef :=
  flat_map (fun x => match x with CMFunc f | CMDeco f => [f] | _ => [] end) l.
Definition member_classes (l : list cmember) : list cdef :=
  flat_map (fun x => match x with CMClass c => if is_enum_def c then [] else [c] | _ => [] end) l.
Definition member_enums (l : list cmember) : list cdef :=
  flat_map (fun x => match x with CMClass c => if is_enum_def c then [c] else [] | _ => [] end) l.

Section Inventory.
  Variables (al : aliases) (d : docs) (pref_doc warn : bool).

  Lemma id_at_module st md name : vs_stack st = [FModule md] -> id_from_stack st name = m_id md ++ K"/" ++ name.
  Proof. intro S. unfold id_from_stack. rewrite S. cbn. reflexivity. Qed.

  Definition grows (md1 md2 : module_) (ms : list cmember) : Prop :=
    m_id md2 = m_id md1 /\
    map f_name (m_functions md2) = map f_name (m_functions md1) ++ map fn_name (member_funcs ms) /\
    map f_id (m_functions md2) = map f_id (m_functions md1) ++ map (fun f => m_id md1 ++ K"/" ++ fn_name f) (member_funcs ms) /\
    map c_name (m_classes md2) = map c_name (m_classes md1) ++ map cd_name (member_classes ms) /\
    map c_id (m_classes md2) = map c_id (m_classes md1) ++ map (fun c => m_id md1 ++ K"/" ++ cd_name c) (member_classes ms) /\
    map e_name (m_enums md2) = map e_name (m_enums md1) ++ map cd_name (member_enums ms) /\
    map e_id (m_enums md2) = map e_id (m_enums md1) ++ map (fun c => m_id md1 ++ K"/" ++ cd_name c) (member_enums ms).

  Lemma grows_nil md : grows md md [].
  Proof. unfold grows. cbn. rewrite !app_nil_r. repeat split. Qed.

  Lemma grows_step md1 md2 md3 x xs : grows md1 md2 [x] -> grows md2 md3 xs -> grows md1 md3 (x :: xs).
  Proof.
    unfold grows, member_funcs, member_classes, member_enums. cbn [flat_map]. rewrite !app_nil_r.
    intros [I1 [A1 [B1 [C1 [D1 [E1 F1]]]]]] [I2 [A2 [B2 [C2 [D2 [E2 F2]]]]]].
    rewrite !map_app. rewrite I1 in *.
    repeat split; try congruence;
      [rewrite A2, A1|rewrite B2, B1|rewrite C2, C1|rewrite D2, D1|rewrite E2, E1|rewrite F2, F1]; rewrite <- app_assoc; reflexivity.
  Qed.

  Lemma fold_inventory : forall defs s1 w1 s2 w2 md1,
    fold_left (fun acc x => do cur <- acc;
                 if module_child x && negb (is_placeholder x)
                 then do s' <- walk_member al d pref_doc warn (fst cur) x; Ok (fst s', wapp (snd cur) (snd s')) else Ok cur) defs (Ok (s1, w1)) = Ok (s2, w2) ->
    vs_stack s1 = [FModule md1] ->
    exists md2, vs_stack s2 = [FModule md2] /\ grows md1 md2 (filter (fun x => module_child x && negb (is_placeholder x)) defs).
  Proof.
    induction defs as [|x r IH]; intros s1 w1 s2 w2 md1 HF S1; cbn [fold_left filter] in *.
    - inv_ok. exists md1. split; [exact S1|apply grows_nil].
    - cbn [bind fst snd] in HF. destruct (module_child x && negb (is_placeholder x)) eqn:EW; [|eapply IH; eauto].
      destruct (walk_member al d pref_doc warn s1 x) as [[sx wx]|] eqn:EX; cbn [bind fst snd] in HF; [|rewrite fold_err_module in HF; discriminate].
      destruct (walk_member_exact al d pref_doc warn x _ _ _ _ _ EX S1 ltac:(discriminate)) as [top' [top1 [eff [S2 [H2 [AO [AE SH]]]]]]].
      cbn in AO. subst top1.
      assert (exists mdx, top' = FModule mdx /\ grows md1 mdx [x]) as [mdx [ET GX]].
      { apply andb_true_iff in EW as [MC _].
        destruct x as [l u|f|f|n p i t|c|c n]; cbn in MC; try discriminate; cbn [member_func] in SH.
        - destruct eff; try contradiction. destruct SH as [N1 I1]. cbn in AE. eexists. split; [exact AE|].
          rewrite (id_at_module _ _ _ S1) in I1. unfold grows, member_funcs, member_classes, member_enums. cbn. rewrite !map_app. cbn.
          rewrite N1, I1, !app_nil_r. repeat split.
        - destruct eff; try contradiction. destruct SH as [N1 I1]. cbn in AE. eexists. split; [exact AE|].
          rewrite (id_at_module _ _ _ S1) in I1. unfold grows, member_funcs, member_classes, member_enums. cbn. rewrite !map_app. cbn.
          rewrite N1, I1, !app_nil_r. repeat split.
        - destruct eff; try contradiction.
          + destruct SH as [EN [N1 [I1 _]]]. cbn in AE. eexists. split; [exact AE|].
            rewrite (id_at_module _ _ _ S1) in I1. unfold grows, member_funcs, member_classes, member_enums. cbn. rewrite EN, !map_app. cbn.
            rewrite N1, I1, !app_nil_r. repeat split.
          + destruct SH as [EN [N1 [I1 _]]]. cbn in AE. eexists. split; [exact AE|].
            rewrite (id_at_module _ _ _ S1) in I1. unfold grows, member_funcs, member_classes, member_enums. cbn. rewrite EN, !map_app. cbn.
            rewrite N1, I1, !app_nil_r. repeat split. }
      subst top'. destruct (IH _ _ _ _ mdx HF S2) as [md2 [S3 G3]].
      exists md2. split; [exact S3|]. eapply grows_step; eauto.
  Qed.

  Theorem module_inventory st m st' w :
    walk_module al d pref_doc warn st m = Ok (st', w) -> vs_stack st = [] ->
    exists md, vs_modules st' = dict_set (m_id md) md (vs_modules st) /\ m_id md = dots_to_slashes (mf_fullname m) /\
      map f_name (m_functions md) = map fn_name (member_funcs (walked m)) /\
      map f_id (m_functions md) = map (fun f => m_id md ++ K"/" ++ fn_name f) (member_funcs (walked m)) /\
      map c_name (m_classes md) = map cd_name (member_classes (walked m)) /\
      map c_id (m_classes md) = map (fun c => m_id md ++ K"/" ++ cd_name c) (member_classes (walked m)) /\
      map e_name (m_enums md) = map cd_name (member_enums (walked m)) /\
      map e_id (m_enums md) = map (fun c => m_id md ++ K"/" ++ cd_name c) (member_enums (walked m)).
  Proof.
    unfold walk_module. intros H S. inv_ok. split_pairs.
    match goal with E : fold_left _ _ _ = Ok (?b, _), E0' : leave_module ?b = Ok _ |- _ => rename b into s2; rename E into EF; rename E0' into EL end.
    pose (md0 := {| m_id := dots_to_slashes (mf_fullname m); m_name := if ends_with t_init_file (mf_path m) then K"__init__" else mf_name m;
                    m_doc := match mf_first_doc m with Some x => x | None => [] end;
                    m_qimports := fst (imports_of m); m_wimports := snd (imports_of m); m_classes := []; m_functions := []; m_enums := [] |}).
    assert (S1 : vs_stack (enter_module st m) = [FModule md0]).
    { unfold enter_module, md0. destruct (imports_of m). cbn. rewrite S. reflexivity. }
    destruct (fold_inventory _ _ _ _ _ _ EF S1) as [md2 [S2 G]].
    unfold leave_module in EL. rewrite S2 in EL. inv_ok.
    destruct G as [I1 [A1 [B1 [C1 [D1 [E1 F1]]]]]]. cbn in *.
    exists md2. cbn [vs_modules]. split.
    - f_equal. pose proof (walk_module_adds al d pref_doc warn st m) as WA. clear WA.
      (* the module dictionary is not touched by the members *)
      assert (K : vs_modules s2 = vs_modules (enter_module st m)).
      { clear -EF. revert EF. generalize (enter_module st m) w0. induction (mf_defs m) as [|x r IH]; intros s1 w1 EF; cbn [fold_left] in EF; [inv_ok; reflexivity|].
        cbn [bind fst snd] in EF. destruct (module_child x && negb (is_placeholder x)); [|eapply IH; exact EF].
        destruct (walk_member al d pref_doc warn s1 x) as [[sx wx]|] eqn:EX; cbn [bind fst snd] in EF; [|rewrite fold_err_module in EF; discriminate].
        rewrite (IH _ _ EF). apply walk_member_pres in EX. destruct EX as [_ [KM _]]. exact KM. }
      rewrite K. unfold enter_module. destruct (imports_of m). reflexivity.
    - fold (walked m) in *. rewrite I1. repeat split; assumption.
  Qed.
End Inventory.

Theorem walk_member_single_owner : forall al d pref_doc warn m st st' w top rest,
  walk_member al d pref_doc warn st m = Ok (st', w) -> vs_stack st = top :: rest -> (forall f, top <> FFunc f) ->
  exists top', vs_stack st' = top' :: rest /\ hdr_eq top top'.
Proof. intros. destruct (walk_member_exact al d pref_doc warn m st st' w top rest) as [t [t1 [e [A [B _]]]]]; eauto. Qed.

(* ======================================================================================================== *)
(* C18, analyzer side: what is recorded for a module does not depend on the modules, classes and functions      *)
(* registered before it - only on its own tree, the re-export map, the alias table and the docstring answers     *)
(* ======================================================================================================== *)
(* the part of the state a node reads: the stack, the re-export map and the current-module fields;
   the dictionaries of registered declarations are write-only *)
Definition core (st : vstate) : vstate :=
  {| vs_modules := []; vs_classes := []; vs_rmap := vs_rmap st; vs_functions := []; vs_results := []; vs_params := [];
     vs_attrs := []; vs_enums := []; vs_enum_insts := []; vs_stack := vs_stack st; vs_modfull := vs_modfull st;
     vs_modname := vs_modname st |}.

Definition rcore {B} (r : res (vstate * B)) : res (list frame * list (str * list rmod) * str * str * B) :=
  match r with
  | Ok (s, b) => Ok (vs_stack s, vs_rmap s, vs_modfull s, vs_modname s, b)
  | Err e => Err e
  end.
Definition rcore1 (r : res vstate) : res (list frame * list (str * list rmod) * str * str) :=
  match r with
  | Ok s => Ok (vs_stack s, vs_rmap s, vs_modfull s, vs_modname s)
  | Err e => Err e
  end.

Section Local.
  Variables (al : aliases) (d : docs) (pref_doc warn : bool).

  Ltac binds := repeat (match goal with
                        | |- context [bind ?X _] => destruct X; cbn [bind]; try reflexivity
                        | |- context [let '(_, _) := ?X in _] => destruct X
                        end).

  Lemma enter_func_core st f : rcore (enter_func al d pref_doc warn (core st) f) = rcore (enter_func al d pref_doc warn st f).
  Proof.
    unfold enter_func, is_public, tenv_of, bottom_module, id_from_stack, check_publicity_in_reexports, parse_parameter.
    cbn [core vs_stack vs_rmap vs_modfull vs_modname]. binds; reflexivity.
  Qed.

  Lemma enter_class_core st c : rcore (enter_class al d (core st) c) = rcore (enter_class al d st c).
  Proof.
    unfold enter_class, is_public, tenv_of, bottom_module, id_from_stack, check_publicity_in_reexports.
    cbn [core vs_stack vs_rmap vs_modfull vs_modname]. binds; reflexivity.
  Qed.

  Lemma enter_enum_core st c : rcore1 (enter_enum d (core st) c) = rcore1 (enter_enum d st c).
  Proof. unfold enter_enum, id_from_stack. cbn [core vs_stack]. binds; reflexivity. Qed.

  Lemma enter_assign_core st lvs ut : rcore (enter_assign al d (core st) lvs ut) = rcore (enter_assign al d st lvs ut).
  Proof.
    unfold enter_assign, tenv_of, bottom_module. cbn [core vs_stack vs_modfull].
    destruct (match rev (vs_stack st) with FModule m :: _ => Ok m | _ => Err TypeError end); cbn [bind]; [|reflexivity].
    match goal with |- rcore (bind ?X _) = rcore (bind ?Y _) => assert (EQ : X = Y) end.
    { (* the attributes are computed from the stack, the re-export map and the current-module fields only *)
      apply f_equal. reflexivity. }
    rewrite EQ. binds; reflexivity.
  Qed.

  Lemma leave_func_core st : rcore1 (leave_func (core st)) = rcore1 (leave_func st).
  Proof.
    unfold leave_func. cbn [core vs_stack]. destruct (vs_stack st) as [|[m|c|f|e|i] rest]; try reflexivity.
    destruct rest; reflexivity.
  Qed.
  Lemma leave_class_core st : rcore1 (leave_class (core st)) = rcore1 (leave_class st).
  Proof.
    unfold leave_class. cbn [core vs_stack]. destruct (vs_stack st) as [|[m|c|f|e|i] rest]; try reflexivity.
    destruct rest as [|[m|p|f|e|i] r']; reflexivity.
  Qed.
  Lemma leave_enum_core st : rcore1 (leave_enum (core st)) = rcore1 (leave_enum st).
  Proof.
    unfold leave_enum. cbn [core vs_stack]. destruct (vs_stack st) as [|[m|c|f|e|i] rest]; try reflexivity.
    destruct rest as [|[m|p|f|e'|i] r']; reflexivity.
  Qed.
  Lemma leave_module_core st : rcore1 (leave_module (core st)) = rcore1 (leave_module st).
  Proof. unfold leave_module. cbn [core vs_stack]. destruct (vs_stack st) as [|[m|c|f|e|i] rest]; reflexivity. Qed.

  Lemma assign_step_stack it stack A I A' I' :
    match assign_step (Ok (stack, A, I)) it, assign_step (Ok (stack, A', I')) it with
    | Ok o, Ok o' => fst (fst o) = fst (fst o')
    | Err e, Err e' => e = e'
    | _, _ => False
    end.
  Proof.
    unfold assign_step. cbn [bind]. destruct it as [a|id n]; destruct stack as [|[m|c|f|e|i] r2]; try reflexivity.
    destruct r2 as [|[m|c|f'|e|i] r3]; reflexivity.
  Qed.

  Lemma assign_fold_stack items : forall stack A I A' I',
    match fold_left assign_step items (Ok (stack, A, I)), fold_left assign_step items (Ok (stack, A', I')) with
    | Ok o, Ok o' => fst (fst o) = fst (fst o')
    | Err e, Err e' => e = e'
    | _, _ => False
    end.
  Proof.
    induction items as [|it r IH]; intros stack A I A' I'; cbn [fold_left]; [reflexivity|].
    pose proof (assign_step_stack it stack A I A' I') as ST.
    destruct (assign_step (Ok (stack, A, I)) it) as [[[s1 a1] i1]|e1], (assign_step (Ok (stack, A', I')) it) as [[[s2 a2] i2]|e2];
      cbn in ST; try contradiction.
    - subst s2. apply IH.
    - rewrite !assign_fold_err. exact ST.
  Qed.

  Lemma leave_assign_core st : rcore1 (leave_assign (core st)) = rcore1 (leave_assign st).
  Proof.
    unfold leave_assign. cbn [core vs_stack vs_attrs vs_enum_insts]. destruct (vs_stack st) as [|[m|c|f|e|items] rest]; try reflexivity.
    destruct rest as [|parent r']; [reflexivity|].
    pose proof (assign_fold_stack items (parent :: r') [] [] (vs_attrs st) (vs_enum_insts st)) as FS.
    destruct parent as [m|c|f|e|i]; try reflexivity;
      (change (fun (acc : res (list frame * list (str * attr) * list (str * str))) (it : aitem) => _) with assign_step;
       destruct (fold_left assign_step items (Ok (_, [], []))) as [[[s1 a1] i1]|e1],
                (fold_left assign_step items (Ok (_, vs_attrs st, vs_enum_insts st))) as [[[s2 a2] i2]|e2];
       cbn in FS; try contradiction; cbn [bind rcore1 vs_stack vs_rmap vs_modfull vs_modname]; [subst s2; reflexivity|congruence]).
  Qed.

  Definition same_core (a b : vstate) : Prop :=
    vs_stack a = vs_stack b /\ vs_rmap a = vs_rmap b /\ vs_modfull a = vs_modfull b /\ vs_modname a = vs_modname b.
  Lemma core_eq a b : same_core a b -> core a = core b.
  Proof. intros [H1 [H2 [H3 H4]]]. unfold core. rewrite H1, H2, H3, H4. reflexivity. Qed.

  Lemma rcore_inv {B} (r r' : res (vstate * B)) : rcore r = rcore r' ->
    match r, r' with
    | Ok (s, x), Ok (s', x') => same_core s s' /\ x = x'
    | Err e, Err e' => e = e'
    | _, _ => False
    end.
  Proof.
    destruct r as [[s x]|e], r' as [[s' x']|e']; cbn; intro H; try discriminate; [|congruence].
    inversion H. unfold same_core. auto.
  Qed.
  Lemma rcore1_inv (r r' : res vstate) : rcore1 r = rcore1 r' ->
    match r, r' with
    | Ok s, Ok s' => same_core s s'
    | Err e, Err e' => e = e'
    | _, _ => False
    end.
  Proof.
    destruct r as [s|e], r' as [s'|e']; cbn; intro H; try discriminate; [|congruence].
    inversion H. unfold same_core. auto.
  Qed.
  Lemma rcore_of_same {B} s s' (x : B) : same_core s s' -> rcore (Ok (s, x)) = rcore (Ok (s', x)).
  Proof. intros [H1 [H2 [H3 H4]]]. cbn. congruence. Qed.

  Lemma rcore_bind {B C} (r1 r2 : res (vstate * B)) (k1 k2 : vstate * B -> res (vstate * C)) :
    rcore r1 = rcore r2 -> (forall s s' x, same_core s s' -> rcore (k1 (s, x)) = rcore (k2 (s', x))) ->
    rcore (bind r1 k1) = rcore (bind r2 k2).
  Proof.
    intros E K. apply rcore_inv in E. destruct r1 as [[s x]|e1], r2 as [[s' x']|e2]; try contradiction; cbn [bind].
    - destruct E as [E1 E2]. subst x'. apply K. exact E1.
    - cbn. congruence.
  Qed.
  Lemma rcore1_bind {C} (r1 r2 : res vstate) (k1 k2 : vstate -> res (vstate * C)) :
    rcore1 r1 = rcore1 r2 -> (forall s s', same_core s s' -> rcore (k1 s) = rcore (k2 s')) ->
    rcore (bind r1 k1) = rcore (bind r2 k2).
  Proof.
    intros E K. apply rcore1_inv in E. destruct r1 as [s|e1], r2 as [s'|e2]; try contradiction; cbn [bind].
    - apply K. exact E.
    - cbn. congruence.
  Qed.

  Lemma enter_func_resp a b f : same_core a b -> rcore (enter_func al d pref_doc warn a f) = rcore (enter_func al d pref_doc warn b f).
  Proof. intro H. rewrite <- (enter_func_core a), <- (enter_func_core b), (core_eq a b H). reflexivity. Qed.
  Lemma enter_class_resp a b c : same_core a b -> rcore (enter_class al d a c) = rcore (enter_class al d b c).
  Proof. intro H. rewrite <- (enter_class_core a), <- (enter_class_core b), (core_eq a b H). reflexivity. Qed.
  Lemma enter_enum_resp a b c : same_core a b -> rcore1 (enter_enum d a c) = rcore1 (enter_enum d b c).
  Proof. intro H. rewrite <- (enter_enum_core a), <- (enter_enum_core b), (core_eq a b H). reflexivity. Qed.
  Lemma enter_assign_resp a b l u : same_core a b -> rcore (enter_assign al d a l u) = rcore (enter_assign al d b l u).
  Proof. intro H. rewrite <- (enter_assign_core a), <- (enter_assign_core b), (core_eq a b H). reflexivity. Qed.
  Lemma leave_func_resp a b : same_core a b -> rcore1 (leave_func a) = rcore1 (leave_func b).
  Proof. intro H. rewrite <- (leave_func_core a), <- (leave_func_core b), (core_eq a b H). reflexivity. Qed.
  Lemma leave_class_resp a b : same_core a b -> rcore1 (leave_class a) = rcore1 (leave_class b).
  Proof. intro H. rewrite <- (leave_class_core a), <- (leave_class_core b), (core_eq a b H). reflexivity. Qed.
  Lemma leave_enum_resp a b : same_core a b -> rcore1 (leave_enum a) = rcore1 (leave_enum b).
  Proof. intro H. rewrite <- (leave_enum_core a), <- (leave_enum_core b), (core_eq a b H). reflexivity. Qed.
  Lemma leave_assign_resp a b : same_core a b -> rcore1 (leave_assign a) = rcore1 (leave_assign b).
  Proof. intro H. rewrite <- (leave_assign_core a), <- (leave_assign_core b), (core_eq a b H). reflexivity. Qed.
  Lemma leave_module_resp a b : same_core a b -> rcore1 (leave_module a) = rcore1 (leave_module b).
  Proof. intro H. rewrite <- (leave_module_core a), <- (leave_module_core b), (core_eq a b H). reflexivity. Qed.

  Lemma assign_pair_resp a b l u (w : W) : same_core a b ->
    rcore (do s1 <- enter_assign al d a l u; do s2 <- leave_assign (fst s1); Ok (s2, wapp w (snd s1))) =
    rcore (do s1 <- enter_assign al d b l u; do s2 <- leave_assign (fst s1); Ok (s2, wapp w (snd s1))).
  Proof.
    intro H. apply rcore_bind; [apply enter_assign_resp; exact H|]. intros s s' x Hs. cbn [fst snd].
    apply rcore1_bind; [apply leave_assign_resp; exact Hs|]. intros t t' Ht. apply rcore_of_same. exact Ht.
  Qed.

  Lemma walk_func_resp a b f : same_core a b -> rcore (walk_func al d pref_doc warn a f) = rcore (walk_func al d pref_doc warn b f).
  Proof.
    intro H. unfold walk_func. apply rcore_bind; [apply enter_func_resp; exact H|]. intros s s' x Hs.
    apply rcore_bind.
    - destruct (str_eqb (fn_name f) (K"__init__")); [|apply rcore_of_same; exact Hs].
      assert (G : forall body (i1 i2 : res (vstate * W)), rcore i1 = rcore i2 ->
                rcore (fold_left (fun acc s => do cur <- acc;
                        match s with
                        | BAssign lvs ut => do s1 <- enter_assign al d (fst cur) lvs ut; do s2 <- leave_assign (fst s1); Ok (s2, wapp (snd cur) (snd s1))
                        | _ => Ok cur
                        end) body i1) =
                rcore (fold_left (fun acc s => do cur <- acc;
                        match s with
                        | BAssign lvs ut => do s1 <- enter_assign al d (fst cur) lvs ut; do s2 <- leave_assign (fst s1); Ok (s2, wapp (snd cur) (snd s1))
                        | _ => Ok cur
                        end) body i2)).
      { induction body as [|st0 r IH]; intros i1 i2 EI; cbn [fold_left]; [exact EI|]. apply IH.
        apply rcore_bind; [exact EI|]. intros t t' y Ht. cbn [fst snd]. destruct st0; try (apply rcore_of_same; exact Ht).
        apply assign_pair_resp. exact Ht. }
      apply G. apply rcore_of_same. exact Hs.
    - intros t t' y Ht. cbn [fst snd]. apply rcore1_bind; [apply leave_func_resp; exact Ht|].
      intros u u' Hu. apply rcore_of_same. exact Hu.
  Qed.

  Lemma walk_member_resp : forall m a b, same_core a b ->
    rcore (walk_member al d pref_doc warn a m) = rcore (walk_member al d pref_doc warn b m).
  Proof.
    induction m as [l u|f|f|n p i t|c n|n fu bs r defs IH] using cmember_ind'; intros a b H; cbn [walk_member].
    - apply rcore_bind; [apply enter_assign_resp; exact H|]. intros s s' x Hs. cbn [fst snd].
      apply rcore1_bind; [apply leave_assign_resp; exact Hs|]. intros t t' Ht. apply rcore_of_same. exact Ht.
    - apply walk_func_resp; exact H.
    - apply walk_func_resp; exact H.
    - destruct i; [destruct p; [destruct t|]| |]; try (apply rcore_of_same; exact H); apply walk_func_resp; exact H.
    - apply rcore_of_same; exact H.
    - apply rcore_bind.
      + destruct (is_enum_def _); [|apply enter_class_resp; exact H].
        apply rcore1_bind; [apply enter_enum_resp; exact H|]. intros s s' Hs. apply rcore_of_same. exact Hs.
      + intros s s' x Hs. apply rcore_bind.
        * cbn [cd_defs]. generalize x. revert s s' Hs. induction IH as [|m ms Hm _ IHms]; intros s s' Hs x0; [apply rcore_of_same; exact Hs|].
          destruct ((if is_enum_def _ then enum_child m else class_child m) && negb (is_placeholder m)); [|apply IHms; exact Hs]. cbn [fst snd].
          pose proof (Hm s s' Hs) as HM. apply rcore_inv in HM.
          destruct (walk_member al d pref_doc warn s m) as [[s1 w1]|e1], (walk_member al d pref_doc warn s' m) as [[s2 w2]|e2];
            try contradiction; cbn [bind fst snd].
          -- destruct HM as [HM1 HM2]. subst w2. apply IHms. exact HM1.
          -- cbn. congruence.
        * intros t t' y Ht. cbn [fst snd]. destruct (is_enum_def _).
          -- apply rcore1_bind; [apply leave_enum_resp; exact Ht|]. intros u0 u' Hu. apply rcore_of_same. exact Hu.
          -- apply rcore1_bind; [apply leave_class_resp; exact Ht|]. intros u0 u' Hu. apply rcore_of_same. exact Hu.
  Qed.

  (* the module record and the log of a module depend on the state only through the stack and the re-export map *)
  Theorem walk_module_local a b m :
    vs_stack a = vs_stack b -> vs_rmap a = vs_rmap b ->
    rcore (walk_module al d pref_doc warn a m) = rcore (walk_module al d pref_doc warn b m) /\
    (forall sa wa, walk_module al d pref_doc warn a m = Ok (sa, wa) ->
       exists sb md, walk_module al d pref_doc warn b m = Ok (sb, wa) /\
                     vs_modules sa = dict_set (m_id md) md (vs_modules a) /\ vs_modules sb = dict_set (m_id md) md (vs_modules b)).
  Proof.
    intros HS HR.
    assert (HE : same_core (enter_module a m) (enter_module b m)).
    { unfold enter_module, same_core. destruct (imports_of m) as [q wi]. cbn. rewrite HS, HR. auto. }
    assert (FOLD : forall defs (i1 i2 : res (vstate * W)), rcore i1 = rcore i2 ->
      rcore (fold_left (fun acc x => do cur <- acc;
               if module_child x && negb (is_placeholder x)
               then do s' <- walk_member al d pref_doc warn (fst cur) x; Ok (fst s', wapp (snd cur) (snd s')) else Ok cur) defs i1) =
      rcore (fold_left (fun acc x => do cur <- acc;
               if module_child x && negb (is_placeholder x)
               then do s' <- walk_member al d pref_doc warn (fst cur) x; Ok (fst s', wapp (snd cur) (snd s')) else Ok cur) defs i2)).
    { induction defs as [|x r IH]; intros i1 i2 EI; cbn [fold_left]; [exact EI|]. apply IH.
      apply rcore_bind; [exact EI|]. intros s s' y Hs. cbn [fst snd].
      destruct (module_child x && negb (is_placeholder x)); [|apply rcore_of_same; exact Hs].
      apply rcore_bind; [apply walk_member_resp; exact Hs|]. intros t t' z Ht. cbn [fst snd]. apply rcore_of_same. exact Ht. }
    pose proof (FOLD (mf_defs m) (Ok (enter_module a m, w0)) (Ok (enter_module b m, w0)) (rcore_of_same _ _ _ HE)) as HF.
    split.
    - unfold walk_module. apply rcore_bind; [exact HF|]. intros s s' x Hs. cbn [fst snd].
      apply rcore1_bind; [apply leave_module_resp; exact Hs|]. intros t t' Ht. apply rcore_of_same. exact Ht.
    - intros sa wa HA. unfold walk_module in *. apply rcore_inv in HF.
      destruct (fold_left _ (mf_defs m) (Ok (enter_module a m, w0))) as [[s1 w1]|e1] eqn:F1; cbn [bind fst snd] in HA; [|discriminate].
      destruct (fold_left _ (mf_defs m) (Ok (enter_module b m, w0))) as [[s2 w2]|e2] eqn:F2; [|contradiction].
      destruct HF as [HC HW]. subst w2. cbn [bind fst snd].
      destruct (leave_module s1) as [s1'|] eqn:L1; cbn [bind] in HA; [|discriminate]. inversion HA; subst; clear HA.
      unfold leave_module in L1 |- *. destruct HC as [HC1 _]. rewrite <- HC1.
      destruct (vs_stack s1) as [|[md|c|f|e|i] rest]; try discriminate. inversion L1; subst; clear L1. cbn [bind].
      eexists. exists md. split; [reflexivity|]. cbn [vs_modules]. split.
      + f_equal. rewrite (module_fold_keeps al d pref_doc warn _ _ _ _ _ F1). apply enter_module_modules.
      + f_equal. rewrite (module_fold_keeps al d pref_doc warn _ _ _ _ _ F2). apply enter_module_modules.
  Qed.
End Local.

(* ======================================================================================================== *)
(* C03 / C12: the inventory of a class - its methods (the functions its members stand for, the constructor apart) *)
(* and its nested classes are registered exactly once, in source order, under their names and <class id>/<name>  *)
(* ======================================================================================================== *)
Definition class_walked (c : cdef) : list cmember := filter (fun x => class_child x && negb (is_placeholder x)) (cd_defs c).
Definition is_init (f : fdef) : bool := str_eqb (fn_name f) (K"__init__").
Definition class_method_defs (l : list cmember) : list fdef :=
  flat_map (fun x => match member_func x with Some f => if is_init f then [] else [f] | None => [] end) l.

Section ClassInventory.
  Variables (al : aliases) (d : docs) (pref_doc warn : bool).

  Lemma flat_map_app' {A B} (f : A -> list B) l1 l2 : flat_map f (l1 ++ l2) = flat_map f l1 ++ flat_map f l2.
  Proof. induction l1; cbn; [reflexivity|]. rewrite IHl1, app_assoc. reflexivity. Qed.

  Lemma id_under st s' c name below :
    vs_stack st = below -> vs_stack s' = FClass c :: below -> c_id c = id_from_stack st (c_name c) ->
    id_from_stack s' name = c_id c ++ K"/" ++ name.
  Proof.
    intros S S' HI. unfold id_from_stack in *. rewrite S' , S in *. cbn [rev]. rewrite flat_map_app'. cbn [flat_map frame_seg app].
    rewrite HI. apply join_app_single. destruct (flat_map frame_seg (rev below)); discriminate.
  Qed.

  Lemma enter_class_fresh st c st' w : enter_class al d st c = Ok (st', w) ->
    exists cl, vs_stack st' = FClass cl :: vs_stack st /\ c_name cl = cd_name c /\ c_id cl = id_from_stack st (cd_name c) /\
               c_methods cl = [] /\ c_classes cl = [].
  Proof.
    unfold enter_class. intro H. inv_ok. destruct (superclasses _ _) as [[sups exc] amb]. inv_ok.
    eexists. split; [reflexivity|]. repeat split.
  Qed.

  Definition cgrows (cid : str) (c1 c2 : cls) (ms : list cmember) : Prop :=
    c_id c2 = c_id c1 /\ c_name c2 = c_name c1 /\
    map f_name (c_methods c2) = map f_name (c_methods c1) ++ map fn_name (class_method_defs ms) /\
    map f_id (c_methods c2) = map f_id (c_methods c1) ++ map (fun f => cid ++ K"/" ++ fn_name f) (class_method_defs ms) /\
    map c_name (c_classes c2) = map c_name (c_classes c1) ++ map cd_name (member_classes ms) /\
    map c_id (c_classes c2) = map c_id (c_classes c1) ++ map (fun c => cid ++ K"/" ++ cd_name c) (member_classes ms).

  Lemma cgrows_nil cid c : cgrows cid c c [].
  Proof. unfold cgrows. cbn. rewrite !app_nil_r. repeat split. Qed.
  Lemma cgrows_step cid c1 c2 c3 x xs : cgrows cid c1 c2 [x] -> cgrows cid c2 c3 xs -> cgrows cid c1 c3 (x :: xs).
  Proof.
    unfold cgrows, class_method_defs, member_classes. cbn [flat_map]. rewrite !app_nil_r.
    intros [I1 [N1 [A1 [B1 [C1 D1]]]]] [I2 [N2 [A2 [B2 [C2 D2]]]]]. rewrite !map_app.
    repeat split; try congruence; [rewrite A2, A1|rewrite B2, B1|rewrite C2, C1|rewrite D2, D1]; rewrite <- app_assoc; reflexivity.
  Qed.

  Lemma class_body : forall defs s1 w1 s2 w2 c1 below st0,
    (fix go (cur : vstate * W) (ms : list cmember) : res (vstate * W) :=
       match ms with
       | [] => Ok cur
       | x :: r => if class_child x && negb (is_placeholder x)
                   then do s' <- walk_member al d pref_doc warn (fst cur) x; go (fst s', wapp (snd cur) (snd s')) r else go cur r
       end) (s1, w1) defs = Ok (s2, w2) ->
    vs_stack st0 = below -> vs_stack s1 = FClass c1 :: below -> c_id c1 = id_from_stack st0 (c_name c1) ->
    exists c2, vs_stack s2 = FClass c2 :: below /\ cgrows (c_id c1) c1 c2 (filter (fun x => class_child x && negb (is_placeholder x)) defs).
  Proof.
    induction defs as [|x r IH]; intros s1 w1 s2 w2 c1 below st0 HF S0 S1 HI; cbn [filter].
    - inv_ok. exists c1. split; [exact S1|apply cgrows_nil].
    - destruct (class_child x && negb (is_placeholder x)) eqn:EW; [|eapply IH; eauto].
      cbn [fst snd] in HF. destruct (walk_member al d pref_doc warn s1 x) as [[sx wx]|] eqn:EX; cbn [bind fst snd] in HF; [|discriminate].
      destruct (walk_member_exact al d pref_doc warn x _ _ _ _ _ EX S1 ltac:(discriminate)) as [top' [top1 [eff [S2 [H2 [AO [AE SH]]]]]]].
      cbn in AO. destruct AO as [ats AO]. subst top1.
      assert (exists cx, top' = FClass cx /\ cgrows (c_id c1) c1 cx [x]) as [cx [ET GX]].
      { unfold cgrows, class_method_defs, member_classes. cbn [flat_map]. rewrite !app_nil_r.
        destruct (member_func x) as [f|] eqn:MF.
        - assert (NC : (match x with CMClass c => if is_enum_def c then [] else [c] | _ => [] end) = [])
            by (destruct x; cbn in MF; try discriminate; reflexivity).
          rewrite NC. clear NC.
          destruct eff; try contradiction. destruct SH as [N1 I1]. unfold apply_effect, add_fn in AE.
          rewrite (id_under st0 s1 c1 (fn_name f) below S0 S1 HI) in I1.
          unfold is_init. rewrite <- N1. destruct (str_eqb (f_name fn) (K"__init__")) eqn:EI.
          + eexists. split; [exact AE|]. destruct c1; cbn. rewrite !app_nil_r. repeat split.
          + eexists. split; [exact AE|]. destruct c1; cbn in *. rewrite !map_app. cbn. rewrite N1, I1, !app_nil_r. repeat split.
        - destruct x as [l u|f|f|n p i t|c|c n]; cbn [member_func] in MF; try discriminate.
          + destruct eff; try contradiction. cbn in AE. eexists. split; [exact AE|]. destruct c1; cbn. rewrite !app_nil_r. repeat split.
          + destruct eff; try contradiction. cbn in AE, SH. rewrite SH in AE. eexists. split; [exact AE|]. rewrite !app_nil_r. repeat split.
          + destruct eff; try contradiction.
            * destruct SH as [EN [N1 [I1 T1]]]. rewrite T1 in AE. cbn in AE.
              rewrite (id_under st0 s1 _ (cd_name c) below S0 S1 HI) in I1.
              eexists. split; [exact AE|]. destruct c1; cbn in *. rewrite EN, !map_app. cbn. rewrite N1, I1, !app_nil_r. repeat split.
            * destruct SH as [EN [N1 [I1 T1]]]. rewrite T1 in AE. cbn in AE.
              eexists. split; [exact AE|]. rewrite EN. cbn. rewrite !app_nil_r. repeat split. }
      subst top'. destruct GX as [GI GR]. pose proof GR as [GN _].
      assert (HI' : c_id cx = id_from_stack st0 (c_name cx)) by congruence.
      destruct (IH _ _ _ _ cx below st0 HF S0 S2 HI') as [c2 [S3 G3]].
      exists c2. split; [exact S3|]. rewrite GI in G3. eapply cgrows_step; [split; eauto|exact G3].
  Qed.

  Theorem class_inventory st c st' w top rest :
    walk_member al d pref_doc warn st (CMClass c) = Ok (st', w) -> is_enum_def c = false -> vs_stack st = top :: rest ->
    exists cl, vs_stack st' = add_cls top cl :: rest /\ c_name cl = cd_name c /\ c_id cl = id_from_stack st (cd_name c) /\
      map f_name (c_methods cl) = map fn_name (class_method_defs (class_walked c)) /\
      map f_id (c_methods cl) = map (fun f => c_id cl ++ K"/" ++ fn_name f) (class_method_defs (class_walked c)) /\
      map c_name (c_classes cl) = map cd_name (member_classes (class_walked c)) /\
      map c_id (c_classes cl) = map (fun x => c_id cl ++ K"/" ++ cd_name x) (member_classes (class_walked c)).
  Proof.
    intros H EN S. cbn [walk_member] in H. rewrite EN in H. inv_ok. split_pairs.
    match goal with E : enter_class _ _ _ _ = Ok _ |- _ => apply enter_class_fresh in E; destruct E as [c0 [S1 [N1 [I1 [M0 C0]]]]] end.
    match goal with EG : _ (_, _) (cd_defs c) = Ok (?b, _) |- _ =>
      destruct (class_body _ _ _ _ _ c0 (top :: rest) st EG S ltac:(rewrite S1, S; reflexivity) ltac:(rewrite N1; exact I1)) as [c2 [S2 G]] end.
    match goal with E : leave_class _ = Ok _ |- _ => pose proof (leave_class_exact _ _ _ _ _ E S2) as S3 end.
    destruct G as [GI [GN [GA [GB [GC GD]]]]]. rewrite M0, C0 in *. cbn [map app] in *.
    exists c2. split; [exact S3|]. fold (class_walked c) in *.
    split; [congruence|]. split; [congruence|]. rewrite GI. repeat split; assumption.
  Qed.
End ClassInventory.

(* ======================================================================================================== *)
(* a generic invariant principle for the walk, and C12: every dictionary of the API object is keyed by the id of  *)
(* its values, without duplicate keys - so every top-level list of the JSON file is sorted by id and duplicate free *)
(* ======================================================================================================== *)
Section Invariant.
  Variables (al : aliases) (d : docs) (pref_doc warn : bool).
  Variable P : vstate -> Prop.
  Hypothesis P_enter_func : forall st f st' w, enter_func al d pref_doc warn st f = Ok (st', w) -> P st -> P st'.
  Hypothesis P_leave_func : forall st st', leave_func st = Ok st' -> P st -> P st'.
  Hypothesis P_enter_class : forall st c st' w, enter_class al d st c = Ok (st', w) -> P st -> P st'.
  Hypothesis P_leave_class : forall st st', leave_class st = Ok st' -> P st -> P st'.
  Hypothesis P_enter_enum : forall st c st', enter_enum d st c = Ok st' -> P st -> P st'.
  Hypothesis P_leave_enum : forall st st', leave_enum st = Ok st' -> P st -> P st'.
  Hypothesis P_enter_assign : forall st l u st' w, enter_assign al d st l u = Ok (st', w) -> P st -> P st'.
  Hypothesis P_leave_assign : forall st st', leave_assign st = Ok st' -> P st -> P st'.

  Lemma walk_func_inv st f st' w : walk_func al d pref_doc warn st f = Ok (st', w) -> P st -> P st'.
  Proof.
    unfold walk_func. intros H HP. inv_ok. split_pairs.
    match goal with E : enter_func _ _ _ _ _ _ = Ok (?a, _), E1 : leave_func ?b = Ok _, E0 : _ = Ok (?b, _) |- _ =>
      rename a into s1; rename b into s2; rename E into EE; rename E1 into EL; rename E0 into EF end.
    eapply P_leave_func; [exact EL|]. apply P_enter_func in EE; [|exact HP]. clear EL HP.
    destruct (str_eqb (fn_name f) (K"__init__")); [|inv_ok; exact EE].
    match goal with EF : fold_left _ _ (Ok (s1, ?w)) = _ |- _ => generalize dependent w end. revert s1 EE.
    induction (fn_body f) as [|b r IH]; intros s1 HP1 w1 EF; cbn [fold_left] in EF; [inv_ok; exact HP1|].
    cbn [bind] in EF. destruct b; try (eapply IH; eassumption).
    cbn [fst snd] in EF.
    destruct (enter_assign al d s1 lvs ut) as [[sa wa]|] eqn:EA; cbn [bind fst snd] in EF.
    - destruct (leave_assign sa) as [sb|] eqn:EB; cbn [bind] in EF.
      + eapply IH; [|exact EF]. eapply P_leave_assign; [exact EB|]. eapply P_enter_assign; eassumption.
      + exfalso. clear -EF. induction r as [|x r IHr]; cbn in EF; [discriminate|auto].
    - exfalso. clear -EF. induction r as [|x r IHr]; cbn in EF; [discriminate|auto].
  Qed.

  Lemma walk_member_inv : forall m st st' w, walk_member al d pref_doc warn st m = Ok (st', w) -> P st -> P st'.
  Proof.
    induction m as [l u|f|f|n p i t|c n|n fu b r defs IH] using cmember_ind'; intros st st' w H HP; cbn [walk_member] in H.
    - inv_ok. split_pairs. eapply P_leave_assign; [eassumption|]. eapply P_enter_assign; eassumption.
    - eapply walk_func_inv; eassumption.
    - eapply walk_func_inv; eassumption.
    - destruct i; [destruct p; [destruct t|]| |]; try (inv_ok; exact HP); eapply walk_func_inv; eassumption.
    - inv_ok. exact HP.
    - inv_ok. split_pairs. cbn [cd_defs] in *.
      match goal with E0 : _ (?a, ?wa) defs = Ok (?b, _) |- _ => rename a into s1; rename b into s2; rename wa into w1; rename E0 into EG end.
      assert (P1 : P s1).
      { destruct (is_enum_def _); [inv_ok; eapply P_enter_enum; eassumption|eapply P_enter_class; eassumption]. }
      assert (P2 : P s2).
      { clear -EG IH P1. revert s1 w1 EG P1. induction IH as [|x xs Hx _ IHxs]; intros s1 w1 EG P1; [inv_ok; exact P1|].
        destruct ((if is_enum_def _ then enum_child x else class_child x) && negb (is_placeholder x)); [|eapply IHxs; eauto].
        cbn [fst snd] in EG. destruct (walk_member al d pref_doc warn s1 x) as [[sx wx]|] eqn:EX; cbn [bind fst snd] in EG; [|discriminate].
        eapply IHxs; [exact EG|]. eapply Hx; eassumption. }
      destruct (is_enum_def _); [eapply P_leave_enum|eapply P_leave_class]; eassumption.
  Qed.

  Hypothesis P_enter_module : forall st m, P st -> P (enter_module st m).
  Hypothesis P_leave_module : forall st st', leave_module st = Ok st' -> P st -> P st'.

  Lemma walk_module_inv st m st' w : walk_module al d pref_doc warn st m = Ok (st', w) -> P st -> P st'.
  Proof.
    unfold walk_module. intros H HP. inv_ok. split_pairs.
    match goal with E : fold_left _ _ _ = Ok (?b, _), E0' : leave_module ?b = Ok _ |- _ => rename b into s2; rename E into EF; rename E0' into EL end.
    eapply P_leave_module; [exact EL|]. pose proof (P_enter_module st m HP) as HP1. clear EL HP.
    revert EF HP1. generalize (enter_module st m) w0. induction (mf_defs m) as [|x r IH]; intros s1 w1 EF HP1; cbn [fold_left] in EF; [inv_ok; exact HP1|].
    cbn [bind fst snd] in EF. destruct (module_child x && negb (is_placeholder x)); [|eapply IH; eassumption].
    destruct (walk_member al d pref_doc warn s1 x) as [[sx wx]|] eqn:EX; cbn [bind fst snd] in EF; [|rewrite fold_err_module in EF; discriminate].
    eapply IH; [exact EF|]. eapply walk_member_inv; eassumption.
  Qed.
End Invariant.
