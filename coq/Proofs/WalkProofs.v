(* Walk-level lemmas about the analyzer model: what the whole walk does, for every module tree. *)
From Coq Require Import List Ascii String Bool Arith ZArith Lia.
From SV Require Import Lib.Str Gen.Tables Model.Types Model.Naming Model.Discover Model.Api Model.FrontSmall Model.View Model.Front
     Proofs.FrontSmallProofs.
Import ListNotations.

(* induction over class members that reaches through the member lists of nested classes *)
Section CmInd.
  Variable P : cmember -> Prop.
  Hypothesis HAssign : forall l u, P (CMAssign l u).
  Hypothesis HFunc : forall f, P (CMFunc f).
  Hypothesis HDeco : forall f, P (CMDeco f).
  Hypothesis HOver : forall n p i t, P (CMOver n p i t).
  Hypothesis HOther : forall c n, P (CMOther c n).
  Hypothesis HClass : forall n f b r defs, Forall P defs -> P (CMClass (mkcdef n f b r defs)).
  Fixpoint cmember_ind' (m : cmember) : P m :=
    match m with
    | CMAssign l u => HAssign l u
    | CMFunc f => HFunc f
    | CMDeco f => HDeco f
    | CMOver n p i t => HOver n p i t
    | CMOther c n => HOther c n
    | CMClass (mkcdef n f b r defs) =>
      HClass n f b r defs ((fix all (l : list cmember) : Forall P l :=
                              match l with [] => Forall_nil P | x :: r' => Forall_cons x (cmember_ind' x) (all r') end) defs)
    end.
End CmInd.

(* the state part of a step's answer *)
Definition rfst {A B} (r : res (A * B)) : res A := match r with Ok x => Ok (fst x) | Err e => Err e end.

Lemma rfst_bind {A B C D} (r1 r2 : res (A * B)) (k1 k2 : A * B -> res (C * D)) :
  rfst r1 = rfst r2 -> (forall x y, fst x = fst y -> rfst (k1 x) = rfst (k2 y)) -> rfst (bind r1 k1) = rfst (bind r2 k2).
Proof.
  intros E K. destruct r1 as [x|e1], r2 as [y|e2]; cbn in *; try discriminate; [|congruence].
  apply K. congruence.
Qed.

Section Purity.
  Variables (al : aliases) (d : docs) (pref_doc : bool).

  (* C14: the warning flag reaches the state nowhere *)
  Lemma enter_func_pure w1 w2 st f :
    rfst (enter_func al d pref_doc w1 st f) = rfst (enter_func al d pref_doc w2 st f).
  Proof.
    unfold enter_func.
    destruct (is_public st (fn_name f) (fn_fullname f)); cbn [bind]; [|reflexivity].
    destruct (doc_func d (fn_fullname f)); cbn [bind]; [|reflexivity].
    destruct (tenv_of al st); cbn [bind]; [|reflexivity].
    match goal with |- context [bind ?X _] => destruct X as [ps|]; cbn [bind]; [|reflexivity] end.
    destruct (doc_results d (fn_fullname f)) as [rdocs|]; cbn [bind]; [|reflexivity].
    match goal with |- context [bind ?X _] => destruct X as [[rc ramb]|]; cbn [bind]; [|reflexivity] end.
    pose proof (result_warn_pure pref_doc w1 w2 (id_from_stack st (fn_name f)) rc rdocs) as RP.
    destruct (reconcile_results pref_doc w1 (id_from_stack st (fn_name f)) rc rdocs) as [r1 n1].
    destruct (reconcile_results pref_doc w2 (id_from_stack st (fn_name f)) rc rdocs) as [r2 n2].
    cbn [fst] in RP. subst r2. cbn [rfst fst]. do 4 f_equal.
    rewrite !map_map. apply map_ext. intro p. apply param_warn_pure.
  Qed.

  Lemma walk_func_pure w1 w2 st f :
    rfst (walk_func al d pref_doc w1 st f) = rfst (walk_func al d pref_doc w2 st f).
  Proof.
    unfold walk_func. apply rfst_bind; [apply enter_func_pure|]. intros x y E.
    apply rfst_bind.
    - destruct (str_eqb (fn_name f) (K"__init__")); [|cbn; congruence].
      assert (G : forall body (i1 i2 : res (vstate * W)), rfst i1 = rfst i2 ->
                rfst (fold_left (fun acc s =>
                        do cur <- acc;
                        match s with
                        | BAssign lvs ut => do s1 <- enter_assign al d (fst cur) lvs ut; do s2 <- leave_assign (fst s1); Ok (s2, wapp (snd cur) (snd s1))
                        | _ => Ok cur
                        end) body i1) =
                rfst (fold_left (fun acc s =>
                        do cur <- acc;
                        match s with
                        | BAssign lvs ut => do s1 <- enter_assign al d (fst cur) lvs ut; do s2 <- leave_assign (fst s1); Ok (s2, wapp (snd cur) (snd s1))
                        | _ => Ok cur
                        end) body i2)).
      { induction body as [|s r IH]; intros i1 i2 EI; cbn [fold_left]; [exact EI|]. apply IH.
        apply rfst_bind; [exact EI|]. intros a b EA. destruct s; cbn; try congruence.
        rewrite EA. destruct (enter_assign al d (fst b) lvs ut) as [s1|]; cbn; [|reflexivity].
        destruct (leave_assign (fst s1)); reflexivity. }
      apply G. cbn. congruence.
    - intros a b EA. rewrite EA. destruct (leave_func (fst b)); reflexivity.
  Qed.

  Lemma walk_member_pure w1 w2 : forall m st,
    rfst (walk_member al d pref_doc w1 st m) = rfst (walk_member al d pref_doc w2 st m).
  Proof.
    induction m as [l u|f|f|n p i t|c n|n fu b r defs IH] using cmember_ind'; intro st; cbn [walk_member].
    - reflexivity.
    - apply walk_func_pure.
    - apply walk_func_pure.
    - destruct i; [destruct p; [destruct t|]| |]; try reflexivity; apply walk_func_pure.
    - reflexivity.
    - apply rfst_bind; [reflexivity|]. intros x y E. apply rfst_bind.
      + cbn [cd_defs]. revert x y E. induction IH as [|m ms Hm _ IHms]; intros x y E; [cbn; congruence|].
        destruct (class_child m && negb (is_placeholder m)); [|apply IHms; exact E].
        rewrite E. pose proof (Hm (fst y)) as HM.
        destruct (walk_member al d pref_doc w1 (fst y) m) as [s1|], (walk_member al d pref_doc w2 (fst y) m) as [s2|];
          cbn in HM; try discriminate; cbn [bind].
        * apply IHms. cbn. congruence.
        * exact HM.
      + intros a b' EA. rewrite EA. destruct (is_enum_def _); [destruct (leave_enum (fst b'))|destruct (leave_class (fst b'))]; reflexivity.
  Qed.

  Lemma walk_module_pure w1 w2 st m :
    rfst (walk_module al d pref_doc w1 st m) = rfst (walk_module al d pref_doc w2 st m).
  Proof.
    unfold walk_module. apply rfst_bind.
    - assert (G : forall defs (i1 i2 : res (vstate * W)), rfst i1 = rfst i2 ->
        rfst (fold_left (fun acc x => do cur <- acc;
                 if module_child x && negb (is_placeholder x)
                 then do s' <- walk_member al d pref_doc w1 (fst cur) x; Ok (fst s', wapp (snd cur) (snd s')) else Ok cur) defs i1) =
        rfst (fold_left (fun acc x => do cur <- acc;
                 if module_child x && negb (is_placeholder x)
                 then do s' <- walk_member al d pref_doc w2 (fst cur) x; Ok (fst s', wapp (snd cur) (snd s')) else Ok cur) defs i2)).
      { induction defs as [|x r IH]; intros i1 i2 EI; cbn [fold_left]; [exact EI|]. apply IH.
        apply rfst_bind; [exact EI|]. intros a b EA. destruct (module_child x && negb (is_placeholder x)); [|cbn; congruence].
        rewrite EA. pose proof (walk_member_pure w1 w2 x (fst b)) as HM.
        destruct (walk_member al d pref_doc w1 (fst b) x), (walk_member al d pref_doc w2 (fst b) x); cbn in *; congruence. }
      apply G. reflexivity.
    - intros a b EA. rewrite EA. destruct (leave_module (fst b)); reflexivity.
  Qed.
End Purity.

Definition with_warn (v : view) (w : bool) : view :=
  {| v_package := v_package v; v_test_run := v_test_run v; v_pref_doc := v_pref_doc v; v_warn := w; v_glob := v_glob v;
     v_aliases := v_aliases v; v_graph := v_graph v; v_docs := v_docs v |}.

(* what a run leaves behind besides the log *)
Definition output_of (r : res outcome) : res (api * list (list str)) :=
  match r with Ok o => Ok (o_api o, o_flat o) | Err e => Err e end.

Theorem front_warn_pure v w1 w2 : output_of (front (with_warn v w1)) = output_of (front (with_warn v w2)).
Proof.
  unfold front. cbn [with_warn v_test_run v_glob v_graph v_package v_aliases v_docs v_pref_doc v_warn].
  destruct (get_api_files (v_test_run v) (v_glob v)); [reflexivity|].
  destruct (select_asts (v_graph v) walkable packages) as [trees|]; cbn [bind]; [|reflexivity].
  destruct (get_aliases (v_package v) (v_aliases v) []) as [al|]; cbn [bind]; [|reflexivity].
  assert (G : forall trees (i1 i2 : res (vstate * W)), rfst i1 = rfst i2 ->
    rfst (fold_left (fun acc g => do cur <- acc;
            match g with
            | GMod m => do s' <- walk_module al (v_docs v) (v_pref_doc v) w1 (fst cur) m; Ok (fst s', wapp (snd cur) (snd s'))
            | _ => Err OracleMiss
            end) trees i1) =
    rfst (fold_left (fun acc g => do cur <- acc;
            match g with
            | GMod m => do s' <- walk_module al (v_docs v) (v_pref_doc v) w2 (fst cur) m; Ok (fst s', wapp (snd cur) (snd s'))
            | _ => Err OracleMiss
            end) trees i2)).
  { induction trees0 as [|g r IH]; intros i1 i2 EI; cbn [fold_left]; [exact EI|]. apply IH.
    apply rfst_bind; [exact EI|]. intros a b EA. destruct g; try reflexivity.
    rewrite EA. pose proof (walk_module_pure al (v_docs v) (v_pref_doc v) w1 w2 (fst b) m) as HM.
    destruct (walk_module al (v_docs v) (v_pref_doc v) w1 (fst b) m), (walk_module al (v_docs v) (v_pref_doc v) w2 (fst b) m); cbn in *; congruence. }
  specialize (G trees (Ok (init_vstate, w0)) (Ok (init_vstate, w0)) eq_refl).
  match goal with |- output_of (bind ?X _) = output_of (bind ?Y _) => destruct X as [e1|], Y as [e2|]; cbn in G; try discriminate; cbn [bind output_of] end.
  - inversion G as [G']. rewrite G'. reflexivity.
  - congruence.
Qed.
