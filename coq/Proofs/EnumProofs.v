(* Enum members (C03): what an assignment of an enum body adds to the enum record, and what the generator prints for the
   instances of a record.  Proofs only; the definitions are in Model/Front.v and Model/Back.v. *)
From Coq Require Import List String Ascii Bool Arith Lia. Import ListNotations.
From SV Require Import Lib.Str Gen.Tables Model.Types Model.Naming Model.Api Model.Back Model.FrontSmall Model.View Model.Front.

(* ---- analyzer: leaving an assignment whose parent is an enum ---- *)
Definition inst_of (it : aitem) : list (str * str) :=
  match it with AIEnumInst id n => [(id, n)] | AIAttr _ => [] end.

Definition enum_add_instances (e : enum_) (l : list (str * str)) : enum_ :=
  {| e_id := e_id e; e_name := e_name e; e_doc := e_doc e; e_instances := e_instances e ++ l |}.

Lemma enum_add_instances_nil e : enum_add_instances e [] = e.
Proof. destruct e; unfold enum_add_instances; cbn. now rewrite app_nil_r. Qed.

Lemma enum_add_instances_step e id n l :
  enum_add_instances (enum_add_instance e id n) l = enum_add_instances e ((id, n) :: l).
Proof. unfold enum_add_instances, enum_add_instance; cbn. now rewrite <- app_assoc. Qed.

Definition assign_step (acc : res (list frame * list (str * attr) * list (str * str))) (it : aitem) :=
  do cur <- acc;
  let '(stack, attrs, insts) := cur in
  match it, stack with
  | AIAttr a, FFunc f :: FClass c :: r2 => Ok (FFunc f :: FClass (cls_add_attr c a) :: r2, dict_set (a_id a) a attrs, insts)
  | AIAttr a, FFunc f :: _ => Err TypeError
  | AIAttr a, FClass c :: r2 => Ok (FClass (cls_add_attr c a) :: r2, dict_set (a_id a) a attrs, insts)
  | AIAttr a, _ => Ok cur
  | AIEnumInst id n, FEnum e :: r2 => Ok (FEnum (enum_add_instance e id n) :: r2, attrs, dict_set id n insts)
  | AIEnumInst _ _, _ => Ok cur
  end.

(* over an enum frame the loop never fails, appends the instances of the statement in order, each once, leaves the attribute
   dictionary and everything below the enum frame as they are, and registers each instance under its id *)
Lemma assign_fold_enum : forall items e r attrs insts,
  exists insts',
    fold_left assign_step items (Ok (FEnum e :: r, attrs, insts)) =
      Ok (FEnum (enum_add_instances e (flat_map inst_of items)) :: r, attrs, insts') /\
    insts' = fold_left (fun d kv => dict_set (fst kv) (snd kv) d) (flat_map inst_of items) insts.
Proof.
  induction items as [|it items IH]; intros e r attrs insts.
  - exists insts. cbn. now rewrite enum_add_instances_nil.
  - destruct it as [a|id n]; cbn [fold_left flat_map inst_of app].
    + unfold assign_step at 2. cbn. apply IH.
    + unfold assign_step at 2. cbn.
      destruct (IH (enum_add_instance e id n) r attrs (dict_set id n insts)) as [i' [H1 H2]].
      exists i'. split; [|exact H2].
      rewrite H1. now rewrite enum_add_instances_step.
Qed.

Theorem leave_assign_enum : forall st items e r,
  vs_stack st = FAssign items :: FEnum e :: r ->
  exists st', leave_assign st = Ok st' /\
    vs_stack st' = FEnum (enum_add_instances e (flat_map inst_of items)) :: r /\
    vs_attrs st' = vs_attrs st /\ vs_enums st' = vs_enums st /\ vs_classes st' = vs_classes st /\
    vs_functions st' = vs_functions st /\ vs_modules st' = vs_modules st /\
    vs_enum_insts st' = fold_left (fun d kv => dict_set (fst kv) (snd kv) d) (flat_map inst_of items) (vs_enum_insts st).
Proof.
  intros st items e r Hs. unfold leave_assign. rewrite Hs.
  destruct (assign_fold_enum items e r (vs_attrs st) (vs_enum_insts st)) as [i' [H1 H2]].
  change (fold_left _ items (Ok (FEnum e :: r, vs_attrs st, vs_enum_insts st)))
    with (fold_left assign_step items (Ok (FEnum e :: r, vs_attrs st, vs_enum_insts st))).
  rewrite H1. cbn. eexists. split; [reflexivity|]. cbn. subst i'. repeat split; reflexivity.
Qed.

(* ---- generator: the instance block of an enum ---- *)
Definition instance_line (nc : bool) (it : str * str) : str :=
  let en := emit_name nc false (snd it) in
  t_indentation ++ (match fst en with None => [] | Some n => name_annotation n ++ K" " end) ++ snd en ++ NL.

Definition enum_signature (nc : bool) (e : enum_) : str :=
  sds_docstring nc (d_desc (e_doc e)) (d_examples (e_doc e)) None None [] ++ K"enum " ++ e_name e.

(* an enum without instances is its signature; otherwise the signature is followed by a brace block holding one line per
   listed instance, in the order of the record, each once, under the name emit_name gives it *)
Theorem enum_string_instances nc e :
  enum_string nc e =
    match e_instances e with
    | [] => enum_signature nc e
    | _ => enum_signature nc e ++ K" {" ++ NL ++ cat (map (instance_line nc) (e_instances e)) ++ K"}"
    end.
Proof.
  unfold enum_string, enum_signature, instance_line. destruct (e_instances e); [reflexivity|].
  now rewrite <- !app_assoc.
Qed.

Theorem enum_instance_lines_count nc e :
  List.length (map (instance_line nc) (e_instances e)) = List.length (e_instances e).
Proof. apply map_length. Qed.

(* ---- analyzer: entering an assignment whose parent is an enum ---- *)
Definition lv_names (lv : expr) : res (list str) :=
  match expr_items lv with
  | Some its => mapM (fun it => match expr_name it with Some n => Ok n | None => Err AttributeError end) its
  | None => match expr_name lv with Some n => Ok [n] | None => Err AttributeError end
  end.

Definition mk_inst (e : enum_) (n : str) : aitem := AIEnumInst (e_id e ++ K"/" ++ n) n.

Definition enum_step (e : enum_) (acc : res (list aitem * bool)) (lv : expr) : res (list aitem * bool) :=
  do cur <- acc; do names <- lv_names lv; Ok (fst cur ++ map (mk_inst e) names, snd cur).

Lemma enum_step_err e lvs x : fold_left (enum_step e) lvs (Err x) = Err x.
Proof. induction lvs as [|lv lvs IH]; [reflexivity|]. cbn. exact IH. Qed.

Lemma enum_fold e : forall lvs acc b items b',
  fold_left (enum_step e) lvs (Ok (acc, b)) = Ok (items, b') ->
  exists nss, Forall2 (fun lv ns => lv_names lv = Ok ns) lvs nss /\ items = acc ++ map (mk_inst e) (List.concat nss) /\ b' = b.
Proof.
  induction lvs as [|lv lvs IH]; intros acc b items b' H.
  - cbn in H. inversion H; subst. exists []. split; [constructor|]. cbn. now rewrite app_nil_r.
  - cbn [fold_left] in H. unfold enum_step at 2 in H. cbn in H.
    destruct (lv_names lv) as [ns|x] eqn:En.
    + cbn in H. apply IH in H. destruct H as [nss [F [Hi Hb]]]. exists (ns :: nss). split; [now constructor|].
      split; [|exact Hb]. cbn. rewrite map_app, app_assoc. exact Hi.
    + cbn in H. rewrite enum_step_err in H. discriminate.
Qed.

Lemma inst_of_mk e ns : flat_map inst_of (map (mk_inst e) ns) = map (fun n => (e_id e ++ K"/" ++ n, n)) ns.
Proof. induction ns as [|n ns IH]; [reflexivity|]. cbn. now rewrite IH. Qed.

(* a completed entry of an assignment statement inside an enum body pushes exactly one item per assigned name - the names of
   the targets, left to right, tuple targets flattened - with the id <enum id>/<name>; nothing else of the state changes *)
Theorem enter_assign_enum : forall al d st lvs ut st' w e r,
  enter_assign al d st lvs ut = Ok (st', w) -> vs_stack st = FEnum e :: r ->
  exists nss, Forall2 (fun lv ns => lv_names lv = Ok ns) lvs nss /\
    st' = push st (FAssign (map (mk_inst e) (List.concat nss))).
Proof.
  intros al d st lvs ut st' w e r H Hs. unfold enter_assign in H.
  destruct (tenv_of al st) as [env|x]; [|discriminate]. cbn in H. rewrite Hs in H.
  match type of H with context [fold_left ?f lvs ?a] => change (fold_left f lvs a) with (fold_left (enum_step e) lvs (Ok ([], false))) in H end.
  destruct (fold_left (enum_step e) lvs (Ok ([], false))) as [[items b]|x] eqn:Ef; [|discriminate].
  apply enum_fold in Ef. destruct Ef as [nss [F [Hi Hb]]]. cbn in H. inversion H; subst.
  exists nss. split; [exact F|]. reflexivity.
Qed.

(* one whole statement: entry followed by exit adds the assigned names, in order, to the enum record *)
Theorem enum_assignment_statement : forall al d st lvs ut st1 w e r,
  enter_assign al d st lvs ut = Ok (st1, w) -> vs_stack st = FEnum e :: r ->
  exists nss st2, Forall2 (fun lv ns => lv_names lv = Ok ns) lvs nss /\ leave_assign st1 = Ok st2 /\
    vs_stack st2 = FEnum (enum_add_instances e (map (fun n => (e_id e ++ K"/" ++ n, n)) (List.concat nss))) :: r.
Proof.
  intros al d st lvs ut st1 w e r H Hs. destruct (enter_assign_enum _ _ _ _ _ _ _ _ _ H Hs) as [nss [F Hst]].
  assert (Hs1 : vs_stack st1 = FAssign (map (mk_inst e) (List.concat nss)) :: FEnum e :: r) by (subst st1; cbn; now rewrite Hs).
  destruct (leave_assign_enum _ _ _ _ Hs1) as [st2 [Hl [Hk _]]]. exists nss, st2. split; [exact F|]. split; [exact Hl|].
  now rewrite inst_of_mk in Hk.
Qed.
