(* Enum members (C03): what an assignment of an enum body adds to the enum record, and what the generator prints for the
   instances of a record.  Proofs only; the definitions are in Model/Front.v and Model/Back.v. *)
From Coq Require Import List String Ascii Bool Arith Lia. Import ListNotations.
From SV Require Import Lib.Str Gen.Tables Model.Types Model.Naming Model.Api Model.Back Model.FrontSmall Model.View Model.Front.

(* ---- analyzer: leaving an assignment whose parent is an enum ---- *)
Definition inst_of (it : aitem) : list (str * str) :=
  match it with AIEnumInst id n => [(id, n)] | AIAttr _ => [] end.

Definition enum_add_instances (e : enum_) (l : list (str * str)) : enum_ :=
  {| e_id := e_id e; e_name := e_name e; e_doc := e_doc e; e_instances := e_instances e ++ l |}.

Lemma enum_add_instances_nil e : enum_add_instances e [] = e.
Proof. destruct e; unfold enum_add_instances; cbn. now rewrite app_nil_r. Qed.

Lemma enum_add_instances_step e id n l :
  enum_add_instances (enum_add_instance e id n) l = enum_add_instances e ((id, n) :: l).
Proof. unfold enum_add_instances, enum_add_instance; cbn. now rewrite <- app_assoc. Qed.

Definition assign_step (acc : res (list frame * list (str * attr) * list (str * str))) (it : aitem) :=
  do cur <- acc;
  let '(stack, attrs, insts) := cur in
  match it, stack with
  | AIAttr a, FFunc f :: FClass c :: r2 => Ok (FFunc f :: FClass (cls_add_attr c a) :: r2, dict_set (a_id a) a attrs, insts)
  | AIAttr a, FFunc f :: _ => Err TypeError
  | AIAttr a, FClass c :: r2 => Ok (FClass (cls_add_attr c a) :: r2, dict_set (a_id a) a attrs, insts)
  | AIAttr a, _ => Ok cur
  | AIEnumInst id n, FEnum e :: r2 => Ok (FEnum (enum_add_instance e id n) :: r2, attrs, dict_set id n insts)
  | AIEnumInst _ _, _ => Ok cur
  end.

(* over an enum frame the loop never fails, appends the instances of the statement in order, each once, leaves the attribute
   dictionary and everything below the enum frame as they are, and registers each instance under its id *)
Lemma assign_fold_enum : forall items e r attrs insts,
  exists insts',
    fold_left assign_step items (Ok (FEnum e :: r, attrs, insts)) =
      Ok (FEnum (enum_add_instances e (flat_map inst_of items)) :: r, attrs, insts') /\
    insts' = fold_left (fun d kv => dict_set (fst kv) (snd kv) d) (flat_map inst_of items) insts.
Proof.
  induction items as [|it items IH]; intros e r attrs insts.
  - exists insts. cbn. now rewrite enum_add_instances_nil.
  - destruct it as [a|id n]; cbn [fold_left flat_map inst_of app].
    + unfold assign_step at 2. cbn. apply IH.
    + unfold assign_step at 2. cbn.
      destruct (IH (enum_add_instance e id n) r attrs (dict_set id n insts)) as [i' [H1 H2]].
      exists i'. split; [|exact H2].
      rewrite H1. now rewrite enum_add_instances_step.
Qed.

Theorem leave_assign_enum : forall st items e r,
  vs_stack st = FAssign items :: FEnum e :: r ->
  exists st', leave_assign st = Ok st' /\
    vs_stack st' = FEnum (enum_add_instances e (flat_map inst_of items)) :: r /\
    vs_attrs st' = vs_attrs st /\ vs_enums st' = vs_enums st /\ vs_classes st' = vs_classes st /\
    vs_functions st' = vs_functions st /\ vs_modules st' = vs_modules st /\
    vs_enum_insts st' = fold_left (fun d kv => dict_set (fst kv) (snd kv) d) (flat_map inst_of items) (vs_enum_insts st).
Proof.
  intros st items e r Hs. unfold leave_assign. rewrite Hs.
  destruct (assign_fold_enum items e r (vs_attrs st) (vs_enum_insts st)) as [i' [H1 H2]].
  change (fold_left _ items (Ok (FEnum e :: r, vs_attrs st, vs_enum_insts st)))
    with (fold_left assign_step items (Ok (FEnum e :: r, vs_attrs st, vs_enum_insts st))).
  rewrite H1. cbn. eexists. split; [reflexivity|]. cbn. subst i'. repeat split; reflexivity.
Qed.

(* ---- generator: the instance block of an enum ---- *)
Definition instance_line (nc : bool) (it : str * str) : str :=
  let en := emit_name nc false (snd it) in
  t_indentation ++ (match fst en with None => [] | Some n => name_annotation n ++ K" " end) ++ snd en ++ NL.

Definition enum_signature (nc : bool) (e : enum_) : str :=
  sds_docstring nc (d_desc (e_doc e)) (d_examples (e_doc e)) None None [] ++ K"enum " ++ e_name e.

(* an enum without instances is its signature; otherwise the signature is followed by a brace block holding one line per
   listed instance, in the order of the record, each once, under the name emit_name gives it *)
Theorem enum_string_instances nc e :
  enum_string nc e =
    match e_instances e with
    | [] => enum_signature nc e
    | _ => enum_signature nc e ++ K" {" ++ NL ++ cat (map (instance_line nc) (e_instances e)) ++ K"}"
    end.
Proof.
  unfold enum_string, enum_signature, instance_line. destruct (e_instances e); [reflexivity|].
  now rewrite <- !app_assoc.
Qed.

Theorem enum_instance_lines_count nc e :
  List.length (map (instance_line nc) (e_instances e)) = List.length (e_instances e).
Proof. apply map_length. Qed.

(* ---- analyzer: entering an assignment whose parent is an enum ---- *)
Definition lv_names (lv : expr) : res (list str) :=
  match expr_items lv with
  | Some its => mapM (fun it => match expr_name it with Some n => Ok n | None => Err AttributeError end) its
  | None => match expr_name lv with Some n => Ok [n] | None => Err AttributeError end
  end.

Definition mk_inst (e : enum_) (n : str) : aitem := AIEnumInst (e_id e ++ K"/" ++ n) n.

Definition enum_step (e : enum_) (acc : res (list aitem * bool)) (lv : expr) : res (list aitem * bool) :=
  do cur <- acc; do names <- lv_names lv; Ok (fst cur ++ map (mk_inst e) names, snd cur).

Lemma enum_step_err e lvs x : fold_left (enum_step e) lvs (Err x) = Err x.
Proof. induction lvs as [|lv lvs IH]; [reflexivity|]. cbn. exact IH. Qed.

Lemma enum_fold e : forall lvs acc b items b',
  fold_left (enum_step e) lvs (Ok (acc, b)) = Ok (items, b') ->
  exists nss, Forall2 (fun lv ns => lv_names lv = Ok ns) lvs nss /\ items = acc ++ map (mk_inst e) (List.concat nss) /\ b' = b.
Proof.
  induction lvs as [|lv lvs IH]; intros acc b items b' H.
  - cbn in H. inversion H; subst. exists []. split; [constructor|]. cbn. now rewrite app_nil_r.
  - cbn [fold_left] in H. unfold enum_step at 2 in H. cbn in H.
    destruct (lv_names lv) as [ns|x] eqn:En.
    + cbn in H. apply IH in H. destruct H as [nss [F [Hi Hb]]]. exists (ns :: nss). split; [now constructor|].
      split; [|exact Hb]. cbn. rewrite map_app, app_assoc. exact Hi.
    + cbn in H. rewrite enum_step_err in H. discriminate.
Qed.

Lemma inst_of_mk e ns : flat_map inst_of (map (mk_inst e) ns) = map (fun n => (e_id e ++ K"/" ++ n, n)) ns.
Proof. induction ns as [|n ns IH]; [reflexivity|]. cbn. now rewrite IH. Qed.

(* a completed entry of an assignment statement inside an enum body pushes exactly one item per assigned name - the names of
   the targets, left to right, tuple targets flattened - with the id <enum id>/<name>; nothing else of the state changes *)
Theorem enter_assign_enum : forall al d st lvs ut st' w e r,
  enter_assign al d st lvs ut = Ok (st', w) -> vs_stack st = FEnum e :: r ->
  exists nss, Forall2 (fun lv ns => lv_names lv = Ok ns) lvs nss /\
    st' = push st (FAssign (map (mk_inst e) (List.concat nss))).
Proof.
  intros al d st lvs ut st' w e r H Hs. unfold enter_assign in H.
  destruct (tenv_of al st) as [env|x]; [|discriminate]. cbn in H. rewrite Hs in H.
  match type of H with context [fold_left ?f lvs ?a] => change (fold_left f lvs a) with (fold_left (enum_step e) lvs (Ok ([], false))) in H end.
  destruct (fold_left (enum_step e) lvs (Ok ([], false))) as [[items b]|x] eqn:Ef; [|discriminate].
  apply enum_fold in Ef. destruct Ef as [nss [F [Hi Hb]]]. cbn in H. inversion H; subst.
  exists nss. split; [exact F|]. reflexivity.
Qed.

(* one whole statement: entry followed by exit adds the assigned names, in order, to the enum record *)
Theorem enum_assignment_statement : forall al d st lvs ut st1 w e r,
  enter_assign al d st lvs ut = Ok (st1, w) -> vs_stack st = FEnum e :: r ->
  exists nss st2, Forall2 (fun lv ns => lv_names lv = Ok ns) lvs nss /\ leave_assign st1 = Ok st2 /\
    vs_stack st2 = FEnum (enum_add_instances e (map (fun n => (e_id e ++ K"/" ++ n, n)) (List.concat nss))) :: r.
Proof.
  intros al d st lvs ut st1 w e r H Hs. destruct (enter_assign_enum _ _ _ _ _ _ _ _ _ H Hs) as [nss [F Hst]].
  assert (Hs1 : vs_stack st1 = FAssign (map (mk_inst e) (List.concat nss)) :: FEnum e :: r) by (subst st1; cbn; now rewrite Hs).
  destruct (leave_assign_enum _ _ _ _ Hs1) as [st2 [Hl [Hk _]]]. exists nss, st2. split; [exact F|]. split; [exact Hl|].
  now rewrite inst_of_mk in Hk.
Qed.

(* non-vacuity: the statement `GREEN = BLUE, TEAL = ...` in the body of an enum that already lists RED *)
Example enum_statement_example : forall d node1 node2 node3,
  let e := {| e_id := K"pkg/m/Color"; e_name := K"Color"; e_doc := {| d_desc := []; d_full := []; d_examples := [] |};
              e_instances := [(K"pkg/m/Color/RED", K"RED")] |} in
  let md := {| m_id := K"pkg/m"; m_name := K"m"; m_doc := []; m_qimports := []; m_wimports := []; m_classes := [];
               m_functions := []; m_enums := [] |} in
  let st := set_stack init_vstate [FEnum e; FModule md] in
  exists st1 w st2,
    enter_assign [] d st [EName (K"GREEN") [] node1; ETuple [EName (K"BLUE") [] node2; EName (K"TEAL") [] node3]] None = Ok (st1, w) /\
    leave_assign st1 = Ok st2 /\
    match vs_stack st2 with
    | FEnum e' :: _ => e_instances e' = [(K"pkg/m/Color/RED", K"RED"); (K"pkg/m/Color/GREEN", K"GREEN");
                                         (K"pkg/m/Color/BLUE", K"BLUE"); (K"pkg/m/Color/TEAL", K"TEAL")]
    | _ => False
    end.
Proof. intros. eexists _, _, _. split; [vm_compute; reflexivity|]. split; vm_compute; reflexivity. Qed.

(* ---- analyzer: the whole body of an enum ---- *)
Inductive member_names : cmember -> list str -> Prop :=
| MN lvs ut nss : Forall2 (fun lv ns => lv_names lv = Ok ns) lvs nss -> member_names (CMAssign lvs ut) (List.concat nss).

Definition inst_pairs (e : enum_) (ns : list str) : list (str * str) := map (fun n => (e_id e ++ K"/" ++ n, n)) ns.

Lemma enum_add_instances_twice e l1 l2 : enum_add_instances (enum_add_instances e l1) l2 = enum_add_instances e (l1 ++ l2).
Proof. unfold enum_add_instances; cbn. now rewrite <- app_assoc. Qed.

Section EnumBody.
  Variables (al : aliases) (d : docs) (pref_doc warn : bool).

  Lemma enum_body : forall defs s1 w1 s2 w2 e below,
    (fix go (cur : vstate * W) (ms : list cmember) : res (vstate * W) :=
       match ms with
       | [] => Ok cur
       | x :: r => if enum_child x && negb (is_placeholder x)
                   then do s' <- walk_member al d pref_doc warn (fst cur) x; go (fst s', wapp (snd cur) (snd s')) r else go cur r
       end) (s1, w1) defs = Ok (s2, w2) ->
    vs_stack s1 = FEnum e :: below ->
    exists nss, Forall2 member_names (filter (fun x => enum_child x && negb (is_placeholder x)) defs) nss /\
      vs_stack s2 = FEnum (enum_add_instances e (inst_pairs e (List.concat nss))) :: below.
  Proof.
    induction defs as [|x r IH]; intros s1 w1 s2 w2 e below HF S1; cbn [filter].
    - inversion HF; subst. exists []. split; [constructor|]. cbn. now rewrite enum_add_instances_nil.
    - destruct (enum_child x && negb (is_placeholder x)) eqn:EW; [|eapply IH; eauto].
      destruct x as [lvs ut|f|f|n p i t|c|c n]; cbn in EW; try discriminate.
      cbn [fst snd] in HF.
      change (walk_member al d pref_doc warn s1 (CMAssign lvs ut))
        with (do x <- enter_assign al d s1 lvs ut; do y <- leave_assign (fst x); Ok (y, snd x)) in HF.
      destruct (enter_assign al d s1 lvs ut) as [[sa wa]|] eqn:EA; [|discriminate].
      destruct (enum_assignment_statement _ _ _ _ _ _ _ _ _ EA S1) as [nss0 [st2 [F [HL HK]]]].
      cbn [bind fst snd] in HF. rewrite HL in HF. cbn [bind fst snd] in HF.
      destruct (IH _ _ _ _ _ _ HF HK) as [nss [F2 S3]].
      exists (List.concat nss0 :: nss). split; [constructor; [now constructor|exact F2]|].
      rewrite S3. rewrite enum_add_instances_twice. unfold inst_pairs. cbn [List.concat e_id enum_add_instances]. now rewrite map_app.
  Qed.

  (* for every enum definition at module level and every state of the walk: the module gains exactly one enum record, named
     like the class, whose instances are the names assigned by the assignment statements of the body - statements in source
     order, the targets of a statement left to right, tuple targets flattened - each once, under <enum id>/<name>;
     methods, properties and nested classes of the body contribute nothing (fix 5e57c43) *)
  Theorem enum_inventory : forall c st st' w m r,
    walk_member al d pref_doc warn st (CMClass c) = Ok (st', w) -> is_enum_def c = true -> vs_stack st = FModule m :: r ->
    exists e nss, vs_stack st' = FModule (mod_add_enum m e) :: r /\ e_name e = cd_name c /\ e_id e = id_from_stack st (cd_name c) /\
      Forall2 member_names (filter (fun x => enum_child x && negb (is_placeholder x)) (cd_defs c)) nss /\
      e_instances e = inst_pairs e (List.concat nss).
  Proof.
    intros c st st' w m r H He Hs. cbn [walk_member] in H. rewrite He in H.
    unfold enter_enum in H. destruct (doc_class d (cd_fullname c)) as [doc|] eqn:ED; [|discriminate]. cbn [bind fst snd] in H.
    match type of H with bind ?X _ = _ => destruct X as [[s2 w2]|] eqn:EG end; [|discriminate].
    eapply enum_body in EG; [|cbn; rewrite Hs; reflexivity]. destruct EG as [nss [F S2]].
    cbn [bind fst snd] in H. unfold leave_enum in H. rewrite S2 in H. inversion H; subst. cbn [vs_stack].
    eexists _, nss. split; [reflexivity|]. cbn. repeat split; auto.
  Qed.
End EnumBody.

(* distinct member names give distinct instance ids (and the names are kept as they are) *)
Lemma inst_pairs_names e ns : map snd (inst_pairs e ns) = ns.
Proof. unfold inst_pairs. rewrite map_map. cbn. apply map_id. Qed.

Lemma inst_pairs_ids_nodup e ns : NoDup ns -> NoDup (map fst (inst_pairs e ns)).
Proof.
  unfold inst_pairs. rewrite map_map. cbn [fst]. induction ns as [|n ns IH]; intro H; [constructor|].
  inversion H as [|? ? Hn Hr]; subst. cbn [map]. constructor; [|now apply IH].
  intro Hin. apply in_map_iff in Hin. destruct Hin as [m [E Hm]].
  apply app_inv_head in E. apply app_inv_head in E. subst m. contradiction.
Qed.

Lemma inst_pairs_names_and_ids : forall e ns,
  map snd (inst_pairs e ns) = ns /\ (NoDup ns -> NoDup (map fst (inst_pairs e ns))).
Proof. intros e ns. split; [apply inst_pairs_names|apply inst_pairs_ids_nodup]. Qed.

(* ---- the flat enum dictionary: untouched by the body, extended by exactly the finished record on exit ---- *)
Lemma enum_statement_keeps_enums : forall al d st lvs ut st1 w e r st2,
  enter_assign al d st lvs ut = Ok (st1, w) -> vs_stack st = FEnum e :: r -> leave_assign st1 = Ok st2 ->
  vs_enums st2 = vs_enums st.
Proof.
  intros al d st lvs ut st1 w e r st2 H Hs H2. destruct (enter_assign_enum _ _ _ _ _ _ _ _ _ H Hs) as [nss [F Hst]].
  assert (Hs1 : vs_stack st1 = FAssign (map (mk_inst e) (List.concat nss)) :: FEnum e :: r) by (subst st1; cbn; now rewrite Hs).
  destruct (leave_assign_enum _ _ _ _ Hs1) as [st2' [Hl [_ [_ [He _]]]]]. rewrite Hl in H2. inversion H2; subst st2'.
  rewrite He. subst st1. reflexivity.
Qed.

Section EnumBodyDict.
  Variables (al : aliases) (d : docs) (pref_doc warn : bool).

  Lemma enum_body_keeps_enums : forall defs s1 w1 s2 w2 e below,
    (fix go (cur : vstate * W) (ms : list cmember) : res (vstate * W) :=
       match ms with
       | [] => Ok cur
       | x :: r => if enum_child x && negb (is_placeholder x)
                   then do s' <- walk_member al d pref_doc warn (fst cur) x; go (fst s', wapp (snd cur) (snd s')) r else go cur r
       end) (s1, w1) defs = Ok (s2, w2) ->
    vs_stack s1 = FEnum e :: below -> vs_enums s2 = vs_enums s1.
  Proof.
    induction defs as [|x r IH]; intros s1 w1 s2 w2 e below HF S1.
    - inversion HF; subst. reflexivity.
    - destruct (enum_child x && negb (is_placeholder x)) eqn:EW; [|eapply IH; eauto].
      destruct x as [lvs ut|f|f|n p i t|c|c n]; cbn in EW; try discriminate.
      cbn [fst snd] in HF.
      change (walk_member al d pref_doc warn s1 (CMAssign lvs ut))
        with (do x <- enter_assign al d s1 lvs ut; do y <- leave_assign (fst x); Ok (y, snd x)) in HF.
      destruct (enter_assign al d s1 lvs ut) as [[sa wa]|] eqn:EA; [|discriminate].
      destruct (enum_assignment_statement _ _ _ _ _ _ _ _ _ EA S1) as [nss0 [st2 [F [HL HK]]]].
      cbn [bind fst snd] in HF. rewrite HL in HF. cbn [bind fst snd] in HF.
      rewrite (IH _ _ _ _ _ _ HF HK). eapply enum_statement_keeps_enums; eauto.
  Qed.

  (* a module-level enum definition registers exactly its finished record under its id, and nothing else, in the flat
     enum dictionary (the record is the one the module lists: enum_inventory) *)
  Theorem enum_registered : forall c st st' w m r,
    walk_member al d pref_doc warn st (CMClass c) = Ok (st', w) -> is_enum_def c = true -> vs_stack st = FModule m :: r ->
    exists e, vs_stack st' = FModule (mod_add_enum m e) :: r /\ vs_enums st' = dict_set (e_id e) e (vs_enums st).
  Proof.
    intros c st st' w m r H He Hs. cbn [walk_member] in H. rewrite He in H.
    unfold enter_enum in H. destruct (doc_class d (cd_fullname c)) as [doc|] eqn:ED; [|discriminate]. cbn [bind fst snd] in H.
    match type of H with bind ?X _ = _ => destruct X as [[s2 w2]|] eqn:EG end; [|discriminate].
    pose proof EG as EG2.
    eapply enum_body in EG; [|cbn; rewrite Hs; reflexivity]. destruct EG as [nss [F S2]].
    eapply enum_body_keeps_enums in EG2; [|cbn; rewrite Hs; reflexivity].
    cbn [bind fst snd] in H. unfold leave_enum in H. rewrite S2 in H. inversion H; subst. cbn [vs_stack vs_enums].
    eexists. split; [reflexivity|]. rewrite EG2. reflexivity.
  Qed.
End EnumBodyDict.
