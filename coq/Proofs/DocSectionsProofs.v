(* The section extraction of the docstring parser (Model/DocSections.v). *)
From Coq Require Import List Ascii String Bool Arith ZArith.
From SV Require Import Lib.Str Model.Types Model.Api Model.View Model.DocTypes Model.DocSections.
Import ListNotations.

(* a text that neither starts nor ends with a line break is copied as it is *)
Definition outer_nl_free (s : str) : bool :=
  match s with [] => true | c :: _ => negb (Ascii.eqb c nl) end && match rev s with [] => true | c :: _ => negb (Ascii.eqb c nl) end.

Lemma lstrip_head cs s : match s with [] => true | c :: _ => negb (mem_ch c cs) end = true -> lstrip_chars cs s = s.
Proof. destruct s as [|c r]; cbn; [reflexivity|]. intro H. apply negb_true_iff in H. rewrite H. reflexivity. Qed.

Theorem description_intact s : outer_nl_free s = true -> strip_nl s = s.
Proof.
  unfold outer_nl_free, strip_nl, strip_chars, rstrip_chars, NL. intro H. apply andb_true_iff in H as [H1 H2].
  rewrite (lstrip_head [nl] s); [|destruct s; [reflexivity|cbn; rewrite orb_false_r; exact H1]].
  rewrite (lstrip_head [nl] (rev s)); [apply rev_involutive|]. destruct (rev s); [reflexivity|cbn; rewrite orb_false_r; exact H2].
Qed.

(* the description of a class or function is its last text section; the examples are those of its example sections, in order *)
Theorem general_doc_description gd secs v rest :
  gd_sections gd = secs ++ SText v :: rest -> Forall (fun s => match s with SText _ => False | _ => True end) rest ->
  d_desc (general_doc (Some gd)) = strip_nl v.
Proof.
  intros E F. cbn [general_doc d_desc]. rewrite E, fold_left_app. cbn [fold_left]. clear E.
  induction F as [|x xs Hx _ IH]; cbn [fold_left]; [reflexivity|]. destruct x; try contradiction; exact IH.
Qed.

(* parameter names are matched up to leading stars: *args is documented as args or *args *)
Theorem matching_ignores_stars params gd name : matching params gd (K"*" ++ name) = matching params gd name /\
                                               matching params gd (K"**" ++ name) = matching params gd name.
Proof.
  unfold matching. destruct (first_section params gd) as [[|x l]|]; auto.
Qed.

(* the last matching entry is the one that counts *)
Theorem param_doc_last_match st gd pname ms lastp :
  matching true gd pname = ms ++ [lastp] ->
  pd_desc (param_doc st false None (Some gd) false pname) = strip_nl (di_desc lastp).
Proof.
  intro E. unfold param_doc. rewrite E. destruct (ms ++ [lastp]) eqn:EM; [destruct ms; discriminate|]. rewrite <- EM, rev_app_distr. reflexivity.
Qed.
