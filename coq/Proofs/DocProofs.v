(* C13: the one-entry docstring cache is transparent - whatever the order of queries, each answer is the uncached lookup. *)
From Coq Require Import List Ascii String Bool Arith.
From SV Require Import Lib.Str Model.Types Model.Doc Proofs.TypesProofs.
Import ListNotations.

(* the invariant: whenever a name is cached, the cached docstring is the uncached answer for that name *)
Definition coherent (root : gnode) (st : cstate) : Prop :=
  match fst st with
  | Some c => lookup_doc root c = Ok (snd st)
  | None => True
  end.

Lemma coherent_init root : coherent root init_cstate.
Proof. exact I. Qed.

Lemma cached_get_correct root st q :
  coherent root st ->
  match cached_get root st q with
  | Ok (d, st') => lookup_doc root q = Ok d /\ coherent root st'
  | Err e => lookup_doc root q = Err e
  end.
Proof.
  destruct st as [cn cd]. unfold coherent, cached_get. cbn [fst snd]. intro HC.
  destruct (negb (match cn with Some c => str_eqb c q | None => false end) || ends_with (K"__init__") q) eqn:E.
  - destruct (lookup_doc root q) as [d|e] eqn:El; [|reflexivity]. split; [reflexivity|]. cbn. exact El.
  - apply orb_false_iff in E as [E1 _]. apply negb_false_iff in E1. destruct cn as [c|]; [|discriminate].
    apply str_eqb_eq in E1. subst c. split; [exact HC|exact HC].
Qed.

Theorem cache_coherent root : forall qs st, coherent root st -> cached_run root st qs = uncached_run root qs.
Proof.
  induction qs as [|q rest IH]; intros st HC; cbn [cached_run uncached_run]; [reflexivity|].
  pose proof (cached_get_correct root st q HC) as H.
  destruct (cached_get root st q) as [[d st']|e].
  - destruct H as [Hl Hc]. rewrite Hl, (IH st' Hc). reflexivity.
  - now rewrite H.
Qed.

Corollary cache_transparent root qs : cached_run root init_cstate qs = uncached_run root qs.
Proof. apply cache_coherent, coherent_init. Qed.

(* the lookup finds the member that the path names: a direct child of the right kind is returned *)
Theorem lookup_child root part rest child :
  str_eqb (g_name root) part = false ->
  member_of_kind GModule part root = None -> member_of_kind GClass part root = Some child ->
  lookup_parts root (part :: rest) = lookup_parts child rest.
Proof. intros H1 H2 H3. cbn [lookup_parts]. unfold lookup_step. now rewrite H1, H2, H3. Qed.

(* recorded finding lookup_same_name: a segment equal to the current node's name is skipped, so function `foo` in module
   `foo` resolves to the module *)
Example lookup_same_name_refuted :
  let f := GNode (K"foo") GFunction (Some (K"Function foo doc.")) [] in
  let m := GNode (K"foo") GModule (Some (K"Module foo doc.")) [f] in
  let root := GNode (K"pkg") GModule None [m] in
  lookup_doc root (K"pkg.foo.foo") = Ok (Some (K"Module foo doc.")).
Proof. vm_compute. reflexivity. Qed.

(* non-vacuity: a sequence with repetitions and an implicit constructor *)
Example cache_example :
  let c := GNode (K"C") GClass (Some (K"class doc")) [GNode (K"m") GFunction (Some (K"m doc")) []] in
  let root := GNode (K"pkg") GModule None [GNode (K"mod") GModule (Some (K"mod doc")) [c]] in
  cached_run root init_cstate [K"pkg.mod.C"; K"pkg.mod.C.__init__"; K"pkg.mod.C"; K"pkg.mod.C.m"; K"pkg.mod.C.m"]
  = Ok [Some (K"class doc"); None; Some (K"class doc"); Some (K"m doc"); Some (K"m doc")].
Proof. vm_compute. reflexivity. Qed.
