(* The translation of docstring types (Model/DocTypes.v). *)
From Coq Require Import List Ascii String Bool Arith ZArith.
From SV Require Import Lib.Str Model.Types Model.DocTypes.
Import ListNotations.

(* `a | b | c | ...` (left-nested, as griffe parses it): the union holds the type of every alternative that has one, from
   the rightmost to the leftmost - none is dropped and none is counted twice, however long the chain *)
Theorem binop_chain numpy l r :
  doc_type numpy (GBinOp l r) = Some (TUnion (somes (map (doc_type numpy) (chain (GBinOp l r))))).
Proof.
  cbn [doc_type chain map]. f_equal. f_equal. unfold somes at 1. cbn [flat_map].
  f_equal. induction l as [cn cp|cn cp sl _|els|els|vals|l1 IH1 r1 _|s p _|].
  1-5, 7-8: cbn [chain map]; unfold somes; cbn [flat_map]; rewrite app_nil_r; reflexivity.
  cbn [chain map]. unfold somes in *. cbn [flat_map]. f_equal. exact IH1.
Qed.

(* a string that griffe cannot parse any further gives no type, except the string "None" *)
Theorem unparsable_string numpy s : doc_type numpy (GStr s (GStr s GOther)) = if str_eqb s (K"None") then Some none_type else None.
Proof.
  cbn [doc_type].
  assert (E : str_eqb s s = true) by (induction s as [|c s IH]; cbn; [reflexivity|]; rewrite Ascii.eqb_refl; exact IH).
  rewrite E, orb_true_r. reflexivity.
Qed.
