(* C20, class header: the two marker blocks in front of `class` are (1) the markers of the constructor parameters and of the bounds
   of the type parameters, (2) "multiple_inheritance" exactly when two or more superclasses are named - whatever the attributes,
   nested classes, methods and inlined ancestors raise in between (each of them flushes its own markers). *)
From Coq Require Import List Ascii String Bool Arith ZArith Lia Permutation.
From SV Require Import Lib.Str Gen.Tables Model.Types Model.Naming Model.Api Model.Back Spec.Markers
  Proofs.TypesProofs Proofs.BackProofs Proofs.SortProofs Proofs.MarkerProofs Proofs.GenProofs.
Import ListNotations.

Definition clean (s : gst) : Prop := g_todos s = [].

(* like ext, without the clause on the class generics (the class header rewrites them) *)
Definition ext0 (s s' : gst) (L : list str) : Prop :=
  (forall k, In k (g_todos s') <-> In k (g_todos s) \/ In k L) /\ (NoDup (g_todos s) -> NoDup (g_todos s')).
Lemma ext_ext0 s s' L : ext s s' L -> ext0 s s' L.
Proof. intros (A & N & _). split; assumption. Qed.
Lemma ext0_refl s : ext0 s s [].
Proof. split; [|auto]. intro k. cbn. tauto. Qed.
Lemma ext0_trans s s1 s2 L1 L2 : ext0 s s1 L1 -> ext0 s1 s2 L2 -> ext0 s s2 (L1 ++ L2).
Proof. intros (A1 & N1) (A2 & N2). split; [|auto]. intro k. rewrite A2, A1, in_app_iff. tauto. Qed.
Lemma ext0_same s s' : g_todos s' = g_todos s -> ext0 s s' [].
Proof. intro E. split; [|rewrite E; auto]. intro k. rewrite E. cbn. tauto. Qed.

Ltac chain0 :=
  solve [ eassumption | apply ext0_refl
        | multimatch goal with H : ext0 ?a _ _ |- ext0 ?a _ _ => eapply ext0_trans; [exact H | chain0] end ].

Section WithApi.
  Variable classes : list (str * cls).
  Variable reexport_map : list (str * list rmod).
  Variable nc : bool.

  Lemma mmap_ext0 {T U} (f : T -> M U) (g : T -> list str) (l : list T) :
    Forall (fun x => forall s y s', f x s = Ok (y, s') -> exists L, ext0 s s' L /\ covers (g x) L) l ->
    forall s ys s', mmap f l s = Ok (ys, s') -> exists L, ext0 s s' L /\ covers (flat_map g l) L.
  Proof.
    induction 1 as [|x r Hx _ IH]; intros s ys s' H; cbn in H.
    - minv_all. exists []. split; [apply ext0_refl|apply covers_nil].
    - minv_all.
      match goal with H1 : f x s = Ok _, H2 : mmap f r _ = Ok _ |- _ =>
        destruct (Hx _ _ _ H1) as (L1 & E1 & C1); destruct (IH _ _ _ H2) as (L2 & E2 & C2) end.
      exists (L1 ++ L2). split; [eapply ext0_trans; eassumption|]. cbn. apply covers_app; assumption.
  Qed.

  Lemma mmap_same {T U} (f : T -> M U) (l : list T) :
    (forall x s y s', f x s = Ok (y, s') -> g_todos s' = g_todos s) ->
    forall s ys s', mmap f l s = Ok (ys, s') -> g_todos s' = g_todos s.
  Proof.
    intro Hf. induction l as [|x r IH]; intros s ys s' H; cbn in H; minv_all; [reflexivity|].
    match goal with H1 : f x s = Ok _, H2 : mmap f r _ = Ok _ |- _ => rewrite (IH _ _ _ H2); exact (Hf _ _ _ _ H1) end.
  Qed.

  Lemma mmap_clean {T U} (f : T -> M U) (l : list T) :
    (forall x s y s', f x s = Ok (y, s') -> clean s -> clean s') ->
    forall s ys s', mmap f l s = Ok (ys, s') -> clean s -> clean s'.
  Proof.
    intro Hf. induction l as [|x r IH]; intros s ys s' H C; cbn in H; minv_all; [exact C|]. eauto.
  Qed.

  (* ---------- everything between the two flushes of a class header leaves nothing pending ---------- *)
  Lemma method_string_clean f indent rx s x s' :
    function_string classes reexport_map nc f indent true rx s = Ok (x, s') -> clean s'.
  Proof.
    unfold function_string. cbn [negb andb]. intro H. minv_all.
    match goal with H : create_todo_msg _ _ = Ok _ |- _ => exact (create_todo_msg_clears _ _ _ _ H) end.
  Qed.

  Lemma class_methods_clean ms inner ic already : forall props meths names s r s',
    class_methods classes reexport_map nc ms inner ic already props meths names s = Ok (r, s') -> clean s -> clean s'.
  Proof.
    induction ms as [|m rest IH]; intros props meths names s r s' H C; cbn [class_methods] in H.
    - minv_all. exact C.
    - destruct (_ || _); [eauto|]. destruct (f_prop m); minv_all.
      + eapply IH; [eassumption|]. eapply property_string_flushes; eassumption.
      + eapply IH; [eassumption|]. eapply method_string_clean; eassumption.
  Qed.

  Lemma class_method_string_clean ms inner ic already s r s' :
    class_method_string classes reexport_map nc ms inner ic already s = Ok (r, s') -> clean s -> clean s'.
  Proof.
    unfold class_method_string. intros H C. minv_all.
    match goal with p : (list str * list str * list str)%type |- _ => destruct p as [[? ?] ?] end. minv_all.
    eapply class_methods_clean; eassumption.
  Qed.

  Lemma class_attribute_string_clean ats inner s r s' :
    class_attribute_string classes reexport_map nc ats inner s = Ok (r, s') -> clean s -> clean s'.
  Proof.
    unfold class_attribute_string. intros H C. minv_all.
    match goal with p : (list str * list str)%type |- _ => destruct p as [? ?] end. minv_all.
    match goal with H : class_attrs _ _ _ _ _ _ _ _ = Ok _ |- _ => exact (proj1 (class_attrs_markers _ _ _ _ _ _ _ _ _ _ _ H C)) end.
  Qed.

  Lemma super_loop_clean (inline : str -> M str) :
    (forall sc s x s', inline sc s = Ok (x, s') -> clean s -> clean s') ->
    forall sups names text s r s', super_loop classes reexport_map inline sups names text s = Ok (r, s') -> clean s -> clean s'.
  Proof.
    intro Hi. induction sups as [|sc rest IH]; intros names text s r s' H C; cbn [super_loop] in H.
    - minv_all. exact C.
    - destruct (negb (is_internal (super_name sc))); minv_all.
      + eapply IH; [eassumption|].
        match goal with H : add_to_imports _ _ _ _ = Ok _ |- _ => apply add_to_imports_same in H; destruct H as [T _] end.
        unfold clean. rewrite T. exact C.
      + eapply IH; [eassumption|]. eapply Hi; eassumption.
  Qed.

  Ltac mstep := repeat (minv_all;
    try match goal with
        | H : (let '(_, _) := ?p in _) _ = Ok _ |- _ => destruct p
        end).

  Lemma class_string_clean fuel c indent rx s x s' :
    class_string classes reexport_map nc fuel c indent rx s = Ok (x, s') -> clean s -> clean s'.
  Proof.
    destruct fuel as [|fu]; [discriminate|]. cbn [class_string]. intros H C. minv_all.
    destruct (if negb rx then shorter_reexport _ _ _ else None) as [[bucket alias]|].
    - minv_all. destruct alias as [[|a al]|]; minv_all; exact C.
    - mstep.
      match goal with H : (if nonempty (c_supers c) && negb (is_abstract c) then _ else _) _ = Ok _ |- _ =>
        destruct (nonempty (c_supers c) && negb (is_abstract c)) end; mstep;
      match goal with H : (if 2 <=? ?n then _ else _) _ = Ok _ |- _ => destruct (2 <=? n) end; mstep;
      match goal with H : _ = Ok (x, s') |- _ => match type of H with context [match ?t with [] => _ | _ :: _ => _ end] => destruct t end end; mstep;
      match goal with |- clean ?sx => match goal with H : create_todo_msg _ _ = Ok (_, sx) |- _ => exact (create_todo_msg_clears _ _ _ _ H) end end.
  Qed.

  Lemma internal_class_string_clean fuel : forall sc inner already s x s',
    internal_class_string classes reexport_map nc fuel sc inner already s = Ok (x, s') -> clean s -> clean s'.
  Proof.
    induction fuel as [|fu IH]; intros sc inner already s x s' H C; [discriminate|].
    cbn [internal_class_string] in H. destruct (get_class_in_package classes sc) as [k|]; [|discriminate]. mstep.
    match goal with H : class_method_string _ _ _ _ _ _ _ _ = Ok _ |- _ => apply class_method_string_clean in H; [|exact C] end.
    match goal with H : mmap _ (c_classes k) _ = Ok _ |- _ =>
      eapply mmap_clean in H; [| |eassumption] end.
    - match goal with H : mmap _ (c_supers k) _ = Ok _ |- _ => eapply mmap_clean in H; [exact H| |eassumption] end.
      intros ss s1 y s2 HS CS. cbn beta in HS. destruct (is_internal _); [eapply IH; eassumption|minv_all; exact CS].
    - intros ic s1 y s2 HS CS. cbn beta in HS. destruct (negb (is_internal (c_name ic))); minv_all; [|exact CS].
      eapply class_string_clean; eassumption.
  Qed.

  (* ---------- the two blocks of the header ---------- *)
  Lemma ctor_block_marks (c : cls) indent s x s' :
    (if is_abstract c then ret []
     else mdo pi <- (match c_ctor c with
                     | Some k => parameter_string classes reexport_map nc (f_params k) indent true
                     | None => ret []
                     end);
          ret (K"(" ++ pi ++ K")")) s = Ok (x, s') ->
    exists L, ext0 s s' L /\
      covers (if is_abstract c then [] else match c_ctor c with Some k => flat_map param_marks (tl (f_params k)) | None => [] end) L.
  Proof.
    destruct (is_abstract c); intro H; minv_all; [exists []; split; [apply ext0_refl|apply covers_nil]|].
    destruct (c_ctor c) as [k|]; minv_all; [|exists []; split; [apply ext0_refl|apply covers_nil]].
    match goal with H : parameter_string _ _ _ _ _ _ _ = Ok _ |- _ => apply parameter_string_marks in H; destruct H as (L & E & C) end.
    exists L. split; [apply ext_ext0; exact E|exact C].
  Qed.

  Lemma variance_block_marks (c : cls) s x s' :
    (if nonempty (c_tparams c) || nonempty (match c_ctor c with Some k => f_tvars k | None => [] end) then
       modify (with_generics (fun _ => [])) ;;
       mmap (fun tp => let item := variance_prefix (tp_variance tp) ++ conv_esc nc (tp_name tp) in
                       mdo item' <- (match tp_type tp with
                                     | Some t => mdo x <- type_string classes reexport_map nc t; ret (item ++ K" sub " ++ x)
                                     | None => ret item
                                     end);
                       modify (with_generics (fun g => g ++ [item']))) (c_tparams c) ;;
       mmap (fun tv : str * option ty =>
               mdo s' <- get;
               if mem_str (fst tv) (g_class_generics s') then ret tt
               else modify (with_generics (fun g => g ++ [fst tv]))) (match c_ctor c with Some k => f_tvars k | None => [] end) ;;
       mdo s' <- get;
       match g_class_generics s' with
       | [] => ret []
       | g => ret (K"<" ++ join (K", ") g ++ K">")
       end
     else ret []) s = Ok (x, s') ->
    exists L, ext0 s s' L /\
      covers (if nonempty (c_tparams c) || nonempty (match c_ctor c with Some k => f_tvars k | None => [] end)
              then flat_map (fun tp => match tp_type tp with Some t => tmarks t | None => [] end) (c_tparams c) else []) L.
  Proof.
    destruct (_ || _); intro H; minv_all; [|exists []; split; [apply ext0_refl|apply covers_nil]].
    match goal with H : mmap _ (c_tparams c) _ = Ok _ |- _ =>
      eapply (mmap_ext0 _ (fun tp => match tp_type tp with Some t => tmarks t | None => [] end)) in H; [destruct H as (L & E & C)|] end.
    - match goal with H : mmap _ _ _ = Ok _ |- _ => apply mmap_same in H end.
      + exists L. split; [|exact C].
        match goal with H : (match g_class_generics ?sa with [] => _ | _ => _ end) ?sa = Ok _ |- _ =>
          assert (s' = sa) by (destruct (g_class_generics sa); minv_all; reflexivity); subst end.
        eapply ext0_trans in E; [|apply (ext0_same s); reflexivity]. cbn [app] in E.
        rewrite <- (app_nil_r L). eapply ext0_trans; [exact E|]. apply ext0_same. assumption.
      + intros tv s1 y s2 HS. cbn beta in HS. minv_all. destruct (mem_str _ _); minv_all; reflexivity.
    - apply Forall_forall. intros tp _ s1 y s2 HS. cbn beta zeta in HS. minv_all.
      destruct (tp_type tp) as [t|]; minv_all.
      + match goal with H : type_string _ _ _ _ _ = Ok _ |- _ => apply type_string_marks in H; destruct H as (L1 & E1 & C1) end.
        exists L1. split; [|exact C1]. rewrite <- (app_nil_r L1). eapply ext0_trans; [apply ext_ext0; exact E1|apply ext0_same; reflexivity].
      + exists []. split; [apply ext0_same; reflexivity|apply covers_nil].
  Qed.

  Lemma add_todo_clean k s x s' : add_todo k s = Ok (x, s') -> clean s -> g_todos s' = [k].
  Proof. unfold add_todo. intros H C. minv_all. cbn. rewrite C. reflexivity. Qed.

  (* a class written here, entered with nothing pending *)
  Theorem class_header_markers fu c indent rx s x s' :
    class_string classes reexport_map nc (S fu) c indent rx s = Ok (x, s') ->
    (if negb rx then shorter_reexport (c_name c) (c_reexported_by c) s else None) = None ->
    clean s ->
    exists Lsig variance ctor_info body,
      NoDup Lsig /\ covers (class_sig_marks c) Lsig /\ clean s' /\
      x = sds_docstring nc (d_desc (c_doc c)) (d_examples (c_doc c))
                        (Some (match c_ctor c with Some k => f_params k | None => [] end)) None indent ++
          ((match fst (emit_name nc true (c_name c)) with None => [] | Some n => indent ++ name_annotation n ++ NL end) ++ indent ++
           todo_text indent Lsig ++ todo_text indent (class_inheritance_marks c) ++
           K"class " ++ snd (emit_name nc true (c_name c)) ++ variance ++ ctor_info ++
           (match class_super_names c with [] => [] | _ => K" sub " ++ join (K", ") (class_super_names c) end)) ++ body.
  Proof.
    cbn [class_string]. intros H HR C. minv_all. rewrite HR in *. mstep.
    match goal with H : (if is_abstract c then _ else _) _ = Ok _ |- _ => apply ctor_block_marks in H; destruct H as (L1 & E1 & C1) end.
    match goal with H : (if nonempty (c_tparams c) || _ then _ else _) _ = Ok _ |- _ => apply variance_block_marks in H; destruct H as (L2 & E2 & C2) end.
    match type of E2 with ext0 _ ?b _ => remember b as sv eqn:SV end. clear SV.
    assert (ES : exists L, ext0 s sv L /\ covers (class_sig_marks c) L) by (eexists; split; [chain0|apply covers_app; assumption]).
    destruct ES as (L & (A & N) & [CI CO]).
    match goal with H : create_todo_msg indent sv = Ok _ |- _ => apply create_todo_msg_text in H; destruct H as (-> & HC & _) end.
    match goal with H : class_attribute_string _ _ _ _ _ _ = Ok _ |- _ => apply class_attribute_string_clean in H; [|exact HC] end.
    match goal with H : mmap _ (c_classes c) _ = Ok _ |- _ => eapply mmap_clean in H; [| |eassumption] end.
    2:{ intros ic sa1 y sa2 HS CS. cbn beta in HS. destruct (c_public ic); minv_all; [|exact CS]. eapply class_string_clean; eassumption. }
    match goal with H : class_method_string _ _ _ _ _ _ _ _ = Ok _ |- _ => apply class_method_string_clean in H; [|assumption] end.
    (* the superclass loop: names of the sub clause, nothing pending afterwards *)
    match goal with H : (if nonempty (c_supers c) && negb (is_abstract c) then _ else _) ?sa = Ok (?names, ?txt, ?sb) |- _ =>
      assert (SUP : names = class_super_names c /\ clean sb); [|clear H] end.
    { unfold class_super_names.
      destruct (nonempty (c_supers c) && negb (is_abstract c)).
      - split.
        + match goal with HS : super_loop _ _ _ _ _ _ _ = Ok _ |- _ => apply super_loop_names in HS; exact HS end.
        + match goal with HS : super_loop _ _ _ _ _ _ _ = Ok _ |- _ => eapply super_loop_clean; [|exact HS|assumption] end.
          intros sc0 sa x' sb HI CI'. cbn beta in HI. exact (internal_class_string_clean fu _ _ _ _ _ _ HI CI').
      - minv_all. match goal with H : (_, _) = (_, _) |- _ => inversion H; subst end. split; [reflexivity|assumption]. }
    destruct SUP as (-> & CS).
    (* the second block *)
    match goal with H : (if 2 <=? ?n then _ else _) ?sa = Ok (_, ?sb) |- _ =>
      assert (INH : g_todos sb = class_inheritance_marks c);
      [unfold class_inheritance_marks; destruct (2 <=? n); [eapply add_todo_clean; eassumption|minv_all; exact CS]|clear H] end.
    match goal with H : create_todo_msg indent _ = Ok _ |- _ => apply create_todo_msg_text in H; destruct H as (-> & HC2 & _) end.
    exists (g_todos sv). do 2 eexists.
    match goal with H : _ = Ok (x, s') |- _ => match type of H with context [match ?t with [] => _ | _ :: _ => _ end] => destruct t end end;
      minv_all; rewrite INH; eexists; (refine (conj _ (conj _ (conj HC2 _))));
      try (apply N; rewrite C; constructor);
      try (split; [intros k Hk; apply A; right; apply CI; exact Hk|intros k Hk; apply A in Hk; rewrite C in Hk; destruct Hk as [[]|Hk]; apply CO; exact Hk]).
    - f_equal. symmetry. apply app_nil_r.
    - reflexivity.
  Qed.
End WithApi.

(* C03: a method is rendered in place - only functions and classes of a module can move to a re-export stub (the branch that
   moves a declaration returns the empty text) *)
Section MethodsStay.
  Variable classes : list (str * cls).
  Variable reexport_map : list (str * list rmod).
  Variable nc : bool.

  Theorem method_is_rendered_in_place f indent rx s x s' :
    function_string classes reexport_map nc f indent true rx s = Ok (x, s') -> g_todos s = [] -> x <> [].
  Proof.
    intros H H0.
    destruct (function_string_markers classes reexport_map nc f indent true rx s x s' H eq_refl H0) as (L & params & tvi & rs & _ & _ & _ & ->).
    intro E. apply (f_equal (@List.length ascii)) in E. rewrite !app_length in E. cbn in E. lia.
  Qed.
End MethodsStay.
