(* Proofs about Model/Discover.v (C15, part of C08). *)
From Coq Require Import List Ascii String Bool Arith Lia Permutation.
From SV Require Import Lib.Str Gen.Tables Model.Discover Proofs.TypesProofs.
Import ListNotations.

Definition keep (tr : bool) (f : str) : bool := tr || negb (in_excluded_dir f).

Lemma discover_spec tr files :
  discover tr files =
  (filter (fun f => keep tr f && negb (is_init_file f)) files,
   map parent_dir (filter (fun f => keep tr f && is_init_file f) files)).
Proof.
  induction files as [|f r IH]; cbn [discover filter map]; [reflexivity|].
  rewrite IH. unfold keep. destruct tr; cbn [negb andb orb].
  - destruct (is_init_file f); reflexivity.
  - destruct (in_excluded_dir f); cbn; [reflexivity|]. destruct (is_init_file f); reflexivity.
Qed.

Lemma mem_str_In x l : mem_str x l = true <-> In x l.
Proof.
  induction l as [|y r IH]; cbn; [easy|]. rewrite orb_true_iff, IH, str_eqb_eq. split; intros [H|H]; auto.
Qed.

(* exact segment equality: look-alike names are not excluded *)
Lemma in_excluded_dir_spec f :
  in_excluded_dir f = true <-> exists d, In d t_excluded_dirs /\ In d (parts f).
Proof.
  unfold in_excluded_dir. rewrite existsb_exists. split; intros (d & H1 & H2); exists d; split; auto;
    now apply mem_str_In.
Qed.

Theorem walkable_iff tr files f :
  In f (fst (discover tr files)) <->
  In f files /\ (tr = true \/ in_excluded_dir f = false) /\ is_init_file f = false.
Proof.
  rewrite discover_spec. cbn [fst]. rewrite filter_In, andb_true_iff, negb_true_iff. unfold keep.
  rewrite orb_true_iff, negb_true_iff. tauto.
Qed.

Theorem package_iff tr files d :
  In d (snd (discover tr files)) <->
  exists f, In f files /\ (tr = true \/ in_excluded_dir f = false) /\ is_init_file f = true /\ parent_dir f = d.
Proof.
  rewrite discover_spec. cbn [snd]. rewrite in_map_iff. split.
  - intros (f & E & H). apply filter_In in H as [H1 H2]. apply andb_true_iff in H2 as [H2 H3].
    unfold keep in H2. apply orb_true_iff in H2. rewrite negb_true_iff in H2. exists f. tauto.
  - intros (f & H1 & H2 & H3 & E). exists f. split; [assumption|]. apply filter_In. split; [assumption|].
    unfold keep. rewrite H3, andb_true_r, orb_true_iff, negb_true_iff. exact H2.
Qed.

(* with the flag every globbed file contributes: it is walkable or a package entry *)
Theorem flag_on_all files f :
  In f files -> In f (fst (discover true files)) \/ In (parent_dir f) (snd (discover true files)).
Proof.
  intros H. destruct (is_init_file f) eqn:E.
  - right. apply package_iff. exists f. auto.
  - left. apply walkable_iff. auto.
Qed.

(* without the flag nothing below an excluded directory contributes *)
Theorem flag_off_excludes files f :
  in_excluded_dir f = true ->
  ~ In f (fst (discover false files)) /\
  ~ (exists g, g = f /\ In g (filter (fun f => keep false f && is_init_file f) files)).
Proof.
  intros HE. split.
  - rewrite walkable_iff. intros (_ & [H|H] & _); congruence.
  - intros (g & -> & H). apply filter_In in H as [_ H]. unfold keep in H. now rewrite HE in H.
Qed.

(* for files outside excluded directories the flag makes no difference to their selection *)
Theorem flag_irrelevant_outside files :
  Forall (fun f => in_excluded_dir f = false) files -> discover true files = discover false files.
Proof.
  intro HF. rewrite !discover_spec.
  assert (HK : forall g, filter (fun f => keep true f && g f) files = filter (fun f => keep false f && g f) files).
  { intro g. induction HF as [|f r Hf _ IH]; [reflexivity|]. cbn [filter]. rewrite IH. unfold keep. rewrite Hf. reflexivity. }
  now rewrite !HK.
Qed.

(* the walk order: only walkable modules and the __init__ files of accepted packages are walked *)
Theorem walk_respects_filter graph w p x :
  In x (order_asts graph w p) ->
  In x graph /\ ((ends_with t_init_file x = true /\ In (init_package_path x) p) \/
                 (ends_with t_init_file x = false /\ In x w)).
Proof.
  unfold order_asts. rewrite in_app_iff, !filter_In, !andb_true_iff, negb_true_iff, !mem_str_In. tauto.
Qed.

(* enumeration order: a permutation of the glob result permutes the selected files *)
Lemma filter_perm {X} (g : X -> bool) l l' : Permutation l l' -> Permutation (filter g l) (filter g l').
Proof.
  induction 1 as [|x l l' _ IH|x y l|l l' l'' _ IH1 _ IH2]; cbn.
  - constructor.
  - destruct (g x); [now constructor|assumption].
  - destruct (g x), (g y); try reflexivity. apply perm_swap.
  - etransitivity; eassumption.
Qed.

Theorem discover_perm tr files files' :
  Permutation files files' ->
  Permutation (fst (discover tr files)) (fst (discover tr files')) /\
  Permutation (snd (discover tr files)) (snd (discover tr files')).
Proof.
  intro HP. rewrite !discover_spec. cbn [fst snd]. split.
  - now apply filter_perm.
  - apply Permutation_map. now apply filter_perm.
Qed.

(* the tool's table equals the three names of the statement (finite check) *)
Definition spec_excluded : list str := [K"test"; K"tests"; K"docs"].
Theorem excluded_table_is_spec :
  forallb (fun d => mem_str d spec_excluded) t_excluded_dirs && forallb (fun d => mem_str d t_excluded_dirs) spec_excluded = true.
Proof. vm_compute. reflexivity. Qed.

(* look-alikes, concretely *)
Example lookalikes_kept :
  map in_excluded_dir [K"/p/testing/a.py"; K"/p/test_x.py"; K"/p/mytests/a.py"; K"/p/docs_old/a.py"; K"/p/tests/a.py"; K"/p/x/docs/b.py"; K"/p/test/__init__.py"]
  = [false; false; false; false; true; true; true].
Proof. vm_compute. reflexivity. Qed.
