(* C03 / C12: a class record never lists two attributes of one name - neither through two statements (first definition wins:
   already_defined) nor through two targets of one statement (add_new_attrs) - for every class at any nesting depth, in the
   module trees and in the flat class dictionary, for every view.  Carried through the walk as an invariant of the stack. *)
From Coq Require Import List Ascii String Bool Arith Lia.
From SV Require Import Lib.Str Gen.Tables Model.Types Model.Api Model.Discover Model.FrontSmall Model.View Model.Front
     Proofs.TypesProofs Proofs.FrontSmallProofs Proofs.WalkProofs Proofs.JsonProofs.
Import ListNotations.

Definition attr_names (c : cls) : list str := map a_name (c_attrs c).

Inductive cls_ok : cls -> Prop :=
| cls_ok_intro c : NoDup (attr_names c) -> Forall cls_ok (c_classes c) -> cls_ok c.

Lemma cls_ok_unfolded c : cls_ok c -> NoDup (map a_name (c_attrs c)) /\ Forall cls_ok (c_classes c).
Proof. intro H. inversion H; subst. split; assumption. Qed.

Definition item_names (items : list aitem) : list str :=
  flat_map (fun it => match it with AIAttr a => [a_name a] | AIEnumInst _ _ => [] end) items.

Definition target_class (rest : list frame) : option cls :=
  match rest with FClass c :: _ => Some c | FFunc _ :: FClass c :: _ => Some c | _ => None end.

(* the pending attributes of a statement: pairwise different names, none of them on the class yet *)
Definition assign_ok (items : list aitem) (rest : list frame) : Prop :=
  NoDup (item_names items) /\
  match target_class rest with Some c => forall n, In n (item_names items) -> ~ In n (attr_names c) | None => True end.

Definition frame_ok (fr : frame) : Prop :=
  match fr with FModule m => Forall cls_ok (m_classes m) | FClass c => cls_ok c | _ => True end.

Fixpoint stack_ok (s : list frame) : Prop :=
  match s with
  | [] => True
  | fr :: rest => frame_ok fr /\ (match fr with FAssign items => assign_ok items rest | _ => True end) /\ stack_ok rest
  end.

Definition attrs_inv (st : vstate) : Prop :=
  stack_ok (vs_stack st) /\ Forall (fun kv : str * cls => cls_ok (snd kv)) (vs_classes st) /\
  Forall (fun kv : str * module_ => Forall cls_ok (m_classes (snd kv))) (vs_modules st).

Lemma cls_ok_same c c' : c_attrs c' = c_attrs c -> c_classes c' = c_classes c -> cls_ok c -> cls_ok c'.
Proof. intros A C H. inversion H; subst. constructor; [unfold attr_names; rewrite A; assumption|rewrite C; assumption]. Qed.

Lemma existsb_name_false (name : str) l : existsb (fun a => str_eqb (a_name a) name) l = false -> ~ In name (map a_name l).
Proof.
  induction l as [|a r IH]; cbn; [tauto|]. intro H. apply orb_false_iff in H. destruct H as [H1 H2].
  intros [E|I]; [|exact (IH H2 I)]. subst. rewrite str_eqb_refl in H1. discriminate.
Qed.

Lemma already_defined_false st n : already_defined st n = Ok false ->
  exists c, target_class (vs_stack st) = Some c /\ ~ In n (attr_names c).
Proof.
  unfold already_defined, target_class. destruct (vs_stack st) as [|[m|c|f|e|i] rest]; try discriminate.
  - intro H. inversion H. exists c. split; [reflexivity|]. apply existsb_name_false. assumption.
  - destruct rest as [|[m|c|f'|e|i] r2]; try discriminate. intro H. inversion H. exists c. split; [reflexivity|].
    apply existsb_name_false. assumption.
Qed.

Lemma create_attribute_name env d st e ut b a amb :
  create_attribute env d st e ut b = Ok (a, amb) -> expr_name e = Some (a_name a).
Proof.
  unfold create_attribute. destruct e; try discriminate; intro H; inv_ok;
    match goal with p : (option ty * str * bool)%type |- _ => destruct p as [[? ?] ?] end; inv_ok; reflexivity.
Qed.

Definition fresh_attr (st : vstate) (a : attr) : Prop :=
  forall c, target_class (vs_stack st) = Some c -> ~ In (a_name a) (attr_names c).

Lemma fresh_of_defined st a : already_defined st (a_name a) = Ok false -> fresh_attr st a.
Proof. intros H c T. apply already_defined_false in H. destruct H as (c' & T' & N). congruence. Qed.

Lemma parse_attributes_fresh env d st lv ut b l amb :
  parse_attributes env d st lv ut b = Ok (l, amb) -> Forall (fresh_attr st) l.
Proof.
  unfold parse_attributes. destruct lv as [n fn nd|n fn nd|z|fr|sx|items|op e0|   |ea eb|x its|x o]; try discriminate.
  - cbn [expr_name]. intro H. inv_ok. match goal with H : (if ?x then _ else _) = Ok _ |- _ => destruct x end; inv_ok; [constructor|].
    match goal with p : (attr * bool)%type |- _ => destruct p as [a am] end. cbn [fst snd].
    match goal with H : create_attribute _ _ _ _ _ _ = Ok _ |- _ => apply create_attribute_name in H; cbn [expr_name] in H; inversion H; subst end.
    constructor; [apply fresh_of_defined; assumption|constructor].
  - cbn [expr_name]. intro H. inv_ok. match goal with H : (if ?x then _ else _) = Ok _ |- _ => destruct x end; inv_ok; [constructor|].
    match goal with p : (attr * bool)%type |- _ => destruct p as [a am] end. cbn [fst snd].
    match goal with H : create_attribute _ _ _ _ _ _ = Ok _ |- _ => apply create_attribute_name in H; cbn [expr_name] in H; inversion H; subst end.
    constructor; [apply fresh_of_defined; assumption|constructor].
  - assert (G : forall its acc out, Forall (fresh_attr st) (fst acc) ->
               fold_left (fun acc it =>
                 do cur <- acc;
                 match expr_name it with
                 | None => Err AttributeError
                 | Some n => do def <- already_defined st n;
                             if def then Ok cur else do a <- create_attribute env d st it ut b; Ok (fst cur ++ [fst a], snd cur || snd a)
                 end) its (Ok acc) = Ok out -> Forall (fresh_attr st) (fst out)).
    { induction its as [|it r IH]; intros acc out HA HF; cbn [fold_left] in HF; [inversion HF; subst; exact HA|].
      cbn [bind] in HF. destruct (expr_name it) as [n|] eqn:EN.
      - destruct (already_defined st n) as [[|]|] eqn:AD; cbn [bind] in HF.
        + eapply IH; eassumption.
        + destruct (create_attribute env d st it ut b) as [[a am]|] eqn:CA; cbn [bind fst snd] in HF.
          * eapply IH; [|exact HF]. cbn [fst]. apply Forall_app. split; [exact HA|]. constructor; [|constructor].
            apply create_attribute_name in CA. rewrite EN in CA. inversion CA; subst. apply fresh_of_defined. exact AD.
          * exfalso. clear -HF. induction r as [|x r IHr]; cbn in HF; [discriminate|auto].
        + exfalso. clear -HF. induction r as [|x r IHr]; cbn in HF; [discriminate|auto].
      - exfalso. clear -HF. induction r as [|x r IHr]; cbn in HF; [discriminate|auto]. }
    intro H. eapply (G items ([], false) (l, amb)); [constructor|exact H].
Qed.

Lemma item_names_app a b : item_names (a ++ b) = item_names a ++ item_names b.
Proof. unfold item_names. apply flat_map_app. Qed.

Lemma existsb_item_false a acc :
  existsb (fun it => match it with AIAttr b => str_eqb (a_name b) (a_name a) | AIEnumInst _ _ => false end) acc = false ->
  ~ In (a_name a) (item_names acc).
Proof.
  induction acc as [|it r IH]; cbn; [tauto|]. intro H. apply orb_false_iff in H. destruct H as [H1 H2].
  destruct it as [b|i n]; cbn.
  - intros [E|I]; [|exact (IH H2 I)]. rewrite E, str_eqb_refl in H1. discriminate.
  - exact (IH H2).
Qed.

Lemma NoDup_snoc {X} (l : list X) x : NoDup l -> ~ In x l -> NoDup (l ++ [x]).
Proof.
  intros N I. apply NoDup_rev in N. rewrite <- (rev_involutive (l ++ [x])). apply NoDup_rev. rewrite rev_app_distr. cbn.
  constructor; [rewrite <- in_rev; exact I|exact N].
Qed.

Lemma add_new_attrs_ok st new : forall cur,
  Forall (fresh_attr st) new -> assign_ok cur (vs_stack st) -> assign_ok (add_new_attrs cur new) (vs_stack st).
Proof.
  unfold add_new_attrs. induction new as [|a r IH]; intros cur HF HC; cbn [fold_left]; [exact HC|].
  inversion HF; subst. apply IH; [assumption|].
  destruct (existsb _ cur) eqn:EX; [exact HC|]. apply existsb_item_false in EX.
  destruct HC as [N T]. split.
  - rewrite item_names_app. cbn. apply NoDup_snoc; assumption.
  - destruct (target_class (vs_stack st)) as [c|] eqn:TC; [|exact I]. intros n Hn. rewrite item_names_app in Hn.
    apply in_app_or in Hn. destruct Hn as [Hn|Hn]; [exact (T n Hn)|]. cbn in Hn. destruct Hn as [<-|[]].
    match goal with H : fresh_attr st a |- _ => exact (H c TC) end.
Qed.

Lemma item_names_insts l (f : str -> aitem) names :
  (forall n, exists i m, f n = AIEnumInst i m) -> item_names (l ++ map f names) = item_names l.
Proof.
  intro Hf. rewrite item_names_app. rewrite <- (app_nil_r (item_names l)) at 2. f_equal.
  induction names as [|n r IH]; [reflexivity|]. cbn. destruct (Hf n) as (i & m & ->). cbn. exact IH.
Qed.

Lemma fold_err {A B} (f : res A -> B -> res A) (Hf : forall e b, f (Err e) b = Err e) l e : fold_left f l (Err e) = Err e.
Proof. induction l as [|b r IH]; cbn; [reflexivity|]. rewrite Hf. exact IH. Qed.

Ltac fold_dead H := exfalso; erewrite fold_err in H; [discriminate H|intros; reflexivity].

Section Inv.
  Variables (al : aliases) (d : docs) (pref_doc warn : bool).

  Lemma enter_assign_items st lvs ut st' w : enter_assign al d st lvs ut = Ok (st', w) ->
    exists items, st' = push st (FAssign items) /\ assign_ok items (vs_stack st).
  Proof.
    unfold enter_assign. intro H. inv_ok.
    match goal with x : (list aitem * bool)%type |- _ => destruct x as [its amb] end. cbn [fst snd] in *.
    exists its. split; [reflexivity|].
    match goal with E : tenv_of al st = Ok ?a |- _ => rename a into env end.
    assert (NIL : assign_ok [] (vs_stack st)) by (split; [constructor|destruct (target_class (vs_stack st)); [intros n []|exact I]]).
    match goal with E : fold_left ?F lvs (Ok ([], false)) = Ok _ |- _ =>
      assert (G : forall l acc out, assign_ok (fst acc) (vs_stack st) -> fold_left F l (Ok acc) = Ok out -> assign_ok (fst out) (vs_stack st));
      [|exact (G lvs ([], false) (its, amb) NIL E)] end.
    induction l as [|lv r IH]; intros acc out HA HF; cbn [fold_left] in HF; [inversion HF; subst; exact HA|].
    cbn [bind] in HF.
    destruct (vs_stack st) as [|[m|c|f|e|i] rest] eqn:S; try (eapply IH; eassumption).
    - (* class body *)
      destruct (parse_attributes env d st lv ut true) as [[l0 am]|] eqn:PA; cbn [bind fst snd] in HF; [|fold_dead HF].
      eapply IH; [|exact HF]. cbn [fst]. rewrite <- S. apply add_new_attrs_ok; [eapply parse_attributes_fresh; exact PA|rewrite S; exact HA].
    - (* function body *)
      destruct rest as [|gp r2]; [eapply IH; eassumption|].
      destruct (str_eqb (f_name f) (K"__init__")); [|eapply IH; eassumption].
      destruct gp as [m|c|f'|e|i]; try (eapply IH; eassumption).
      destruct lv; try (eapply IH; eassumption);
        (match type of HF with context [parse_attributes ?a ?b ?c ?lv0 ?u ?bb] =>
           destruct (parse_attributes a b c lv0 u bb) as [[l0 am]|] eqn:PA; cbn [bind fst snd] in HF; [|fold_dead HF] end;
         eapply IH; [|exact HF]; cbn [fst]; rewrite <- S; apply add_new_attrs_ok; [eapply parse_attributes_fresh; exact PA|rewrite S; exact HA]).
    - (* enum body *)
      match type of HF with context [bind ?X _] => destruct X as [names|] eqn:EN; cbn [bind fst snd] in HF; [|fold_dead HF] end.
      eapply IH; [|exact HF]. cbn [fst]. destruct HA as [N T]. unfold assign_ok.
      rewrite item_names_insts; [split; assumption|]. intro n. eauto.
  Qed.

  Lemma a_enter_func st f st' w : enter_func al d pref_doc warn st f = Ok (st', w) -> attrs_inv st -> attrs_inv st'.
  Proof.
    intros H [S [C M]]. unfold enter_func in H. inv_ok.
    match goal with H : (let '(_, _) := ?X in _) = _ |- _ => destruct X as [rc ramb] end.
    match goal with H : (let '(_, _) := ?X in _) = _ |- _ => destruct X as [r n] end. inv_ok.
    (unfold attrs_inv; refine (conj _ (conj C M))). cbn. auto.
  Qed.

  Lemma a_enter_class st c st' w : enter_class al d st c = Ok (st', w) -> attrs_inv st -> attrs_inv st'.
  Proof.
    unfold enter_class. intros H [S [C M]]. inv_ok. destruct (superclasses _ _) as [[sups exc] amb]. inv_ok.
    (unfold attrs_inv; refine (conj _ (conj C M))). cbn. refine (conj _ (conj I S)). constructor; [constructor|constructor].
  Qed.

  Lemma a_enter_enum st c st' : enter_enum d st c = Ok st' -> attrs_inv st -> attrs_inv st'.
  Proof. unfold enter_enum. intros H [S [C M]]. inv_ok. (unfold attrs_inv; refine (conj _ (conj C M))). cbn. auto. Qed.

  Lemma a_enter_assign st l u st' w : enter_assign al d st l u = Ok (st', w) -> attrs_inv st -> attrs_inv st'.
  Proof.
    intros H [S [C M]]. apply enter_assign_items in H. destruct H as (items & -> & A).
    (unfold attrs_inv; refine (conj _ (conj C M))). cbn. auto.
  Qed.

  Lemma a_leave_func st st' : leave_func st = Ok st' -> attrs_inv st -> attrs_inv st'.
  Proof.
    unfold leave_func. destruct (vs_stack st) as [|[m|c|f|e|i] rest] eqn:S; try discriminate.
    intros H [SO [C M]]. rewrite S in SO. cbn in SO. destruct SO as (_ & _ & SO).
    destruct rest as [|parent r']; inv_ok; ((unfold attrs_inv; refine (conj _ (conj C M)))); cbn [vs_stack set_stack]; [exact SO|].
    cbn in SO. destruct SO as (F & A & R). destruct parent as [m|c|f'|e|i]; cbn; auto.
    destruct (str_eqb _ _); cbn; (refine (conj _ (conj I R))); (eapply cls_ok_same; [| |exact F]); reflexivity.
  Qed.

  Lemma a_leave_class st st' : leave_class st = Ok st' -> attrs_inv st -> attrs_inv st'.
  Proof.
    unfold leave_class. destruct (vs_stack st) as [|[m|c|f|e|i] rest] eqn:S; try discriminate.
    intros H [SO [C M]]. rewrite S in SO. cbn in SO. destruct SO as (FC & _ & SO).
    assert (C' : Forall (fun kv : str * cls => cls_ok (snd kv)) (dict_set (c_id c) c (vs_classes st)))
      by (apply dict_set_forall; [exact C|exact FC|intros; exact FC]).
    destruct rest as [|[m|p|f|e|i] r']; inv_ok; cbn [vs_stack set_stack with_classes vs_classes vs_modules];
      try ((unfold attrs_inv; refine (conj _ (conj C M))); exact SO).
    - cbn in SO. destruct SO as (F & _ & R). (unfold attrs_inv; refine (conj _ (conj C' M))). cbn. refine (conj _ (conj I R)).
      apply Forall_app. split; [exact F|constructor; [exact FC|constructor]].
    - cbn in SO. destruct SO as (F & _ & R). (unfold attrs_inv; refine (conj _ (conj C' M))). cbn. refine (conj _ (conj I R)).
      inversion F; subst. constructor; [assumption|]. cbn. apply Forall_app. split; [assumption|constructor; [exact FC|constructor]].
  Qed.

  Lemma a_leave_enum st st' : leave_enum st = Ok st' -> attrs_inv st -> attrs_inv st'.
  Proof.
    unfold leave_enum. destruct (vs_stack st) as [|[m|c|f|e|i] rest] eqn:S; try discriminate.
    intros H [SO [C M]]. rewrite S in SO. cbn in SO. destruct SO as (_ & _ & SO).
    destruct rest as [|[m|p|f|e'|i] r']; inv_ok; ((unfold attrs_inv; refine (conj _ (conj C M)))); cbn [vs_stack set_stack]; exact SO.
  Qed.

  (* the statement's items are added to the class: its names stay pairwise different *)
  Lemma assign_fold_ok items : forall stack A I out,
    fold_left assign_step items (Ok (stack, A, I)) = Ok out ->
    stack_ok stack -> assign_ok items stack -> stack_ok (fst (fst out)).
  Proof.
    induction items as [|it r IH]; intros stack A I out H SO AO; cbn [fold_left] in H; [inversion H; subst; exact SO|].
    destruct (assign_step (Ok (stack, A, I)) it) as [[[stack' A'] I']|e] eqn:E; [|rewrite assign_fold_err in H; discriminate].
    unfold assign_step in E. cbn [bind] in E. destruct AO as [N T].
    destruct it as [a|id n].
    - (* an attribute *)
      cbn in N. inversion N as [|x l NI NR]; subst.
      destruct stack as [|[m|c|f|e|i] r2]; inv_ok;
        try (eapply IH; [exact H|exact SO|split; [exact NR|]];
             match goal with |- match target_class ?s with _ => _ end => destruct (target_class s) eqn:TC; [|exact I] end;
             cbn in TC; try discriminate).
      + (* on the class *)
        cbn in SO. destruct SO as (F & _ & R). cbn [target_class] in T.
        eapply IH; [exact H| |].
        * cbn. refine (conj _ (conj I R)). inversion F; subst. constructor; [|assumption].
          unfold attr_names. cbn. rewrite map_app. cbn. apply NoDup_snoc; [assumption|]. apply T. cbn. auto.
        * split; [exact NR|]. cbn [target_class]. intros n Hn. unfold attr_names. cbn. rewrite map_app. cbn. intro HI.
          apply in_app_or in HI. destruct HI as [HI|[<-|[]]]; [|exact (NI Hn)]. refine (T n _ HI). cbn. auto.
      + (* in __init__: the class below *)
        destruct r2 as [|[m|c|f'|e|i] r3]; inv_ok.
        cbn in SO. destruct SO as (_ & _ & F & _ & R). cbn [target_class] in T.
        eapply IH; [exact H| |].
        * cbn. refine (conj I (conj I (conj _ (conj I R)))). inversion F; subst. constructor; [|assumption].
          unfold attr_names. cbn. rewrite map_app. cbn. apply NoDup_snoc; [assumption|]. apply T. cbn. auto.
        * split; [exact NR|]. cbn [target_class]. intros n Hn. unfold attr_names. cbn. rewrite map_app. cbn. intro HI.
          apply in_app_or in HI. destruct HI as [HI|[<-|[]]]; [|exact (NI Hn)]. refine (T n _ HI). cbn. auto.
    - (* an enum instance *)
      cbn in N.
      destruct stack as [|[m|c|f|e|i] r2]; inv_ok; try (eapply IH; [exact H|exact SO|split; [exact N|exact T]]).
  Qed.

  Lemma a_leave_assign st st' : leave_assign st = Ok st' -> attrs_inv st -> attrs_inv st'.
  Proof.
    unfold leave_assign. destruct (vs_stack st) as [|[m|c|f|e|items] rest] eqn:S; try discriminate.
    intros H [SO [C M]]. rewrite S in SO. cbn in SO. destruct SO as (_ & AO & SO).
    destruct rest as [|parent r']; [inv_ok; (unfold attrs_inv; refine (conj _ (conj C M))); exact SO|].
    assert (G : forall X, (do out <- fold_left assign_step items (Ok (parent :: r', vs_attrs st, vs_enum_insts st));
                           let '(stack, attrs, insts) := out in X stack attrs insts) = Ok st' ->
                exists stack attrs insts, stack_ok stack /\ X stack attrs insts = Ok st').
    { intros X HX. destruct (fold_left assign_step items _) as [[[stack attrs] insts]|] eqn:EF; cbn [bind] in HX; [|discriminate].
      exists stack, attrs, insts. split; [|exact HX]. exact (assign_fold_ok _ _ _ _ _ EF SO AO). }
    destruct parent as [m|c|f|e|i]; try discriminate;
      (apply G in H; destruct H as (stack & attrs & insts & HS & HX); inv_ok; (unfold attrs_inv; refine (conj _ (conj C M))); exact HS).
  Qed.

  Lemma a_enter_module st m : attrs_inv st -> attrs_inv (enter_module st m).
  Proof.
    unfold enter_module. destruct (imports_of m). intros [S [C M]]. (unfold attrs_inv; refine (conj _ (conj C M))). cbn. refine (conj _ (conj I S)). constructor.
  Qed.

  Lemma a_leave_module st st' : leave_module st = Ok st' -> attrs_inv st -> attrs_inv st'.
  Proof.
    unfold leave_module. destruct (vs_stack st) as [|[m|c|f|e|i] rest] eqn:S; try discriminate.
    intros H [SO [C M]]. rewrite S in SO. inv_ok. cbn in SO. destruct SO as (F & _ & R). unfold attrs_inv; refine (conj R (conj C _)). cbn.
    apply dict_set_forall; [exact M|exact F|intros; exact F].
  Qed.

  Lemma walk_module_attrs st m st' w : walk_module al d pref_doc warn st m = Ok (st', w) -> attrs_inv st -> attrs_inv st'.
  Proof.
    apply (walk_module_inv al d pref_doc warn attrs_inv); eauto using a_enter_func, a_leave_func, a_enter_class, a_leave_class,
      a_enter_enum, a_leave_enum, a_enter_assign, a_leave_assign, a_enter_module, a_leave_module.
  Qed.
End Inv.

Lemma init_attrs : attrs_inv init_vstate.
Proof. unfold attrs_inv, init_vstate. cbn. auto. Qed.

(* every class of the outcome - in the module trees and in the flat dictionary, at any nesting depth *)
Theorem front_attribute_names_unique v o : front v = Ok o ->
  Forall (fun m => Forall cls_ok (m_classes m)) (api_modules (o_api o)) /\
  Forall (fun kv : str * cls => cls_ok (snd kv)) (api_classes (o_api o)).
Proof.
  unfold front. destruct (get_api_files (v_test_run v) (v_glob v)); [discriminate|].
  destruct (select_asts (v_graph v) walkable packages) as [trees|]; cbn [bind]; [|discriminate].
  destruct (get_aliases (v_package v) (v_aliases v) []) as [al|]; cbn [bind]; [|discriminate].
  match goal with |- context [fold_left ?F trees ?I] => destruct (fold_left F trees I) as [[st lg]|] eqn:EF end; cbn [bind]; [|discriminate].
  intro H. inversion H; subst; clear H.
  assert (K : attrs_inv st).
  { revert EF. generalize init_attrs. generalize init_vstate w0. induction trees as [|g r IH]; intros s0 wz K0 EF; cbn [fold_left] in EF; [inversion EF; subst; exact K0|].
    cbn [bind fst snd] in EF. destruct g as [m|pth fn|k].
    - destruct (walk_module al (v_docs v) (v_pref_doc v) (v_warn v) s0 m) as [[s1 w1]|] eqn:EW; cbn [bind fst snd] in EF.
      + eapply IH; [|exact EF]. eapply walk_module_attrs; eassumption.
      + exfalso. clear -EF. induction r as [|x r IHr]; cbn in EF; [discriminate|auto].
    - exfalso. clear -EF. induction r as [|x r IHr]; cbn in EF; [discriminate|auto].
    - exfalso. clear -EF. induction r as [|x r IHr]; cbn in EF; [discriminate|auto]. }
  destruct K as [_ [C M]]. cbn. split; [|exact C].
  rewrite Forall_map. exact M.
Qed.
