(* C11: every class name written as a type is imported when it has to be.  For every type, after it has been rendered, the
   import set contains - for every named type at a rendered position that is not one of the built-in mappings - the qualified
   name that _add_to_imports computes for it (import_effect), unless that computation finds that no import is needed (a builtin,
   typing.Any, the module itself).  The import set only grows, so nothing registered earlier is lost. *)
From Coq Require Import List Ascii String Bool Arith ZArith Lia.
From SV Require Import Lib.Str Gen.Tables Model.Types Model.Naming Model.Api Model.Back Spec.Markers
  Proofs.TypesProofs Proofs.BackProofs Proofs.SortProofs Proofs.MarkerProofs Proofs.GenProofs.
Import ListNotations.

(* the named types at the positions that are rendered, without the built-in mappings (int, str, ... : no class reference) *)
Fixpoint named_leaves (t : ty) : list (str * str) :=
  match t with
  | TNamed name qname => match lookup_pair name t_builtin_type_names with Some _ => [] | None => [(name, qname)] end
  | TFinal t' => named_leaves t'
  | TCallable ps r =>
    flat_map named_leaves ps ++
    match r with
    | TTuple rs => flat_map named_leaves rs
    | TNamed rn _ => if str_eqb rn (K"None") then [] else named_leaves r
    | _ => named_leaves r
    end
  | TSet ts | TList ts | TNamedSeq _ _ ts => flat_map named_leaves ts
  | TUnion ts =>
    if union_short ts then []
    else if 2 <=? List.length (filter is_literal ts)
         then flat_map (fun x => if is_literal x then [] else named_leaves x) ts
         else flat_map named_leaves ts
  | TTuple ts => flat_map named_leaves ts
  | TDict k v => named_leaves k ++ named_leaves v
  | TUnknown | TLiteral _ | TTypeVar _ _ | TEnum _ | TBoundary _ _ _ _ _ => []
  end.

(* the part of the generator state that _add_to_imports reads besides the import set *)
Definition ids_same (s s' : gst) : Prop :=
  g_module_id s' = g_module_id s /\ g_reexport_module_id s' = g_reexport_module_id s /\ g_creating_reexport s' = g_creating_reexport s.
Definition imp (s s' : gst) : Prop := ids_same s s' /\ incl (g_imports s) (g_imports s').
Lemma imp_refl s : imp s s.
Proof. split; [repeat split|apply incl_refl]. Qed.
Lemma imp_trans a b c : imp a b -> imp b c -> imp a c.
Proof.
  intros [(A1 & A2 & A3) I1] [(B1 & B2 & B3) I2]. split; [repeat split; congruence|eapply incl_tran; eassumption].
Qed.

Section WithApi.
  Variable classes : list (str * cls).
  Variable reexport_map : list (str * list rmod).
  Variable nc : bool.

  (* what _add_to_imports must leave in the import set for the qualified name q: None when no import is needed *)
  Definition import_effect (q : str) (s : gst) : option str :=
    let parts := split_ch dot q in
    if (str_eqb (hd [] parts) (K"builtins") && Nat.eqb (List.length parts) 2) || str_eqb q (K"typing.Any") then None
    else
      let module_id := slash_to_dot (get_module_id true s) in
      if contains module_id q then None
      else
        let path := dot_to_slash q in
        match find (fun kv => is_path_connected_to_class reexport_map path (fst kv)) classes with
        | Some (class_id, _) =>
          let cq := slash_to_dot class_id in
          let name := last (split_ch dot cq) [] in
          let '((shortest, _), _) := shortest_public_reexport reexport_map name cq false in
          let q' := if nonempty shortest then shortest ++ DOT ++ name else cq in
          let q'' := if nonempty q' then q' else q in
          if str_eqb (dot_to_slash q'') (get_module_id false s) then None else Some q''
        | None => if str_eqb (dot_to_slash q) (get_module_id false s) then None else Some q
        end.

  Lemma import_effect_ids q s s' : ids_same s s' -> import_effect q s' = import_effect q s.
  Proof. intros (A & B & C). unfold import_effect, get_module_id. rewrite A, B, C. reflexivity. Qed.

  Definition imported (q : str) (s0 s' : gst) : Prop :=
    match import_effect q s0 with Some i => In i (g_imports s') | None => True end.

  Lemma set_add_incl x l : incl l (set_add x l).
  Proof. intros k Hk. apply set_add_In. left. exact Hk. Qed.

  Lemma add_to_imports_effect q s x s' :
    add_to_imports classes reexport_map q s = Ok (x, s') -> imp s s' /\ imported q s s'.
  Proof.
    unfold add_to_imports, imported, import_effect. destruct q as [|c0 q0]; [discriminate|].
    destruct (_ || _); [intro H; minv_all; split; [apply imp_refl|exact I]|].
    intro H. minv_all. destruct (contains _ _); [minv_all; split; [apply imp_refl|exact I]|].
    destruct (find _ classes) as [[cid ?]|].
    - destruct (shortest_public_reexport _ _ _ _) as [[sh ?] tie]. minv_all.
      match goal with H : (if ?c then _ else _) _ = Ok _ |- _ => destruct c eqn:EQ end; minv_all.
      + split; [split; [repeat split|apply incl_refl]|exact I].
      + split; [split; [repeat split|cbn [g_imports with_imports with_tie]; apply set_add_incl]|].
        cbn [g_imports with_imports with_tie]. apply set_add_In. right. reflexivity.
    - minv_all.
      match goal with H : (if ?c then _ else _) _ = Ok _ |- _ => destruct c eqn:EQ end; minv_all.
      + split; [split; [repeat split|apply incl_refl]|exact I].
      + split; [split; [repeat split|cbn [g_imports with_imports with_outside]; apply set_add_incl]|].
        cbn [g_imports with_imports with_outside]. apply set_add_In. right. reflexivity.
  Qed.

  Lemma imported_mono q s0 s1 s2 : incl (g_imports s1) (g_imports s2) -> imported q s0 s1 -> imported q s0 s2.
  Proof. unfold imported. intros I H. destruct (import_effect q s0); [apply I; exact H|exact H]. Qed.
  Lemma imported_ids q s0 s0' s' : ids_same s0 s0' -> imported q s0' s' -> imported q s0 s'.
  Proof. unfold imported. intros I H. rewrite (import_effect_ids _ _ _ I) in H. exact H. Qed.

  Notation tstring := (type_string classes reexport_map nc).

  Definition leaves_ok (g : ty -> list (str * str)) (t : ty) : Prop :=
    forall s x s', tstring t s = Ok (x, s') -> imp s s' /\ Forall (fun nq => imported (snd nq) s s') (g t).

  Lemma mmap_imp {T U} (f : T -> M U) (g : T -> list (str * str)) (l : list T) :
    Forall (fun x => forall s y s', f x s = Ok (y, s') -> imp s s' /\ Forall (fun nq => imported (snd nq) s s') (g x)) l ->
    forall s ys s', mmap f l s = Ok (ys, s') -> imp s s' /\ Forall (fun nq => imported (snd nq) s s') (flat_map g l).
  Proof.
    induction 1 as [|x r Hx _ IH]; intros s ys s' H; cbn in H.
    - minv_all. split; [apply imp_refl|constructor].
    - minv_all.
      match goal with H1 : f x s = Ok _, H2 : mmap f r _ = Ok _ |- _ =>
        destruct (Hx _ _ _ H1) as (I1 & F1); destruct (IH _ _ _ H2) as (I2 & F2) end.
      split; [eapply imp_trans; eassumption|]. cbn. apply Forall_app. split.
      + eapply Forall_impl; [|exact F1]. intros nq Hq. eapply imported_mono; [exact (proj2 I2)|exact Hq].
      + eapply Forall_impl; [|exact F2]. intros nq Hq. eapply imported_ids; [exact (proj1 I1)|exact Hq].
  Qed.

  Lemma add_todo_imp k s x s' : add_todo k s = Ok (x, s') -> imp s s'.
  Proof. unfold add_todo. intro H. minv_all. split; [repeat split|apply incl_refl]. Qed.

  Lemma seq_finish_imp name types s x s' : seq_finish name types s = Ok (x, s') -> imp s s'.
  Proof.
    unfold seq_finish. destruct types; intro H; minv_all; [apply imp_refl|].
    destruct (_ && _); minv_all; [eapply add_todo_imp; eassumption|apply imp_refl].
  Qed.

  Ltac imps := repeat match goal with
    | H : add_todo _ _ = Ok _ |- _ => apply add_todo_imp in H
    | H : seq_finish _ _ _ = Ok _ |- _ => apply seq_finish_imp in H
    end.
  Ltac ichain := solve [ eassumption | apply imp_refl
                       | multimatch goal with H : imp ?a _ |- imp ?a _ => eapply imp_trans; [exact H | ichain] end ].

  Lemma Forall_imported_mono l s0 s1 s2 : imp s1 s2 ->
    Forall (fun nq : str * str => imported (snd nq) s0 s1) l -> Forall (fun nq => imported (snd nq) s0 s2) l.
  Proof. intros [_ I] F. eapply Forall_impl; [|exact F]. intros nq Hq. eapply imported_mono; eassumption. Qed.
  Lemma Forall_imported_ids l s0 s0' s' : imp s0 s0' ->
    Forall (fun nq : str * str => imported (snd nq) s0' s') l -> Forall (fun nq => imported (snd nq) s0 s') l.
  Proof. intros [I _] F. eapply Forall_impl; [|exact F]. intros nq Hq. eapply imported_ids; eassumption. Qed.

  Definition lv_ok := leaves_ok named_leaves.

  Lemma type_string_imports_strong : forall t, lv_ok t /\ (forall ts, t = TTuple ts -> Forall lv_ok ts).
  Proof.
    induction t as [| n q | n q ts IH | vs | b mn mx i1 i2 | ts IH | ts IH | k v IHk IHv | ps r IHp IHr | ts IH
                   | ls | t IH | ts IH | n | n u IH] using ty_ind';
      (split; [|try (intros ? E; discriminate E)]); try (intros s x s' H; cbn [type_string named_leaves] in * ).
    - (* unknown *) minv_all. imps. split; [assumption|constructor].
    - (* named *)
      destruct (lookup_pair n t_builtin_type_names); [minv_all; split; [apply imp_refl|constructor]|].
      minv_all. destruct n as [|c n]; [minv_all|]. minv_all.
      match goal with H : add_to_imports _ _ _ _ = Ok _ |- _ => apply add_to_imports_effect in H; destruct H as (I1 & F1) end.
      match goal with H : (if ?c then _ else _) _ = Ok _ |- _ => destruct c end; minv_all; imps.
      + split; [ichain|]. constructor; [|constructor]. cbn. eapply imported_mono; [|exact F1].
        match goal with H : imp ?a ?b |- incl (g_imports ?a) (g_imports ?b) => exact (proj2 H) end.
      + split; [assumption|]. constructor; [exact F1|constructor].
    - (* named sequence *)
      assert (IH' : Forall lv_ok ts) by (eapply Forall_impl; [|exact IH]; cbn; tauto).
      minv_all. imps.
      match goal with H : mmap _ ts _ = Ok _ |- _ => destruct (mmap_imp _ named_leaves ts IH' _ _ _ H) as (I1 & F1) end.
      split; [ichain|]. eapply Forall_imported_mono; eassumption.
    - discriminate.
    - discriminate.
    - (* union *)
      assert (IH' : Forall lv_ok ts) by (eapply Forall_impl; [|exact IH]; cbn; tauto).
      unfold union_short. cbv zeta.
      match goal with |- context [if ?c then _ else _] => destruct c end.
      + minv_all. split; [apply imp_refl|constructor].
      + minv_all. destruct (2 <=? _).
        * minv_all.
          match goal with H : mmap _ ts _ = Ok _ |- _ =>
            eapply (mmap_imp _ (fun x => if is_literal x then [] else named_leaves x)) in H; [exact H|] end.
          eapply Forall_impl; [|exact IH']. cbn. intros a Ha s1 y s2 Hy. destruct (is_literal a); minv_all.
          -- split; [apply imp_refl|constructor].
          -- eauto.
        * eapply (mmap_imp _ named_leaves); eassumption.
    - (* list *)
      assert (IH' : Forall lv_ok ts) by (eapply Forall_impl; [|exact IH]; cbn; tauto).
      minv_all. imps.
      match goal with H : mmap _ ts _ = Ok _ |- _ => destruct (mmap_imp _ named_leaves ts IH' _ _ _ H) as (I1 & F1) end.
      split; [ichain|]. eapply Forall_imported_mono; eassumption.
    - (* dict *)
      destruct IHk as [IHk _], IHv as [IHv _]. minv_all.
      match goal with H1 : tstring k _ = Ok _, H2 : tstring v _ = Ok _ |- _ =>
        destruct (IHk _ _ _ H1) as (I1 & F1); destruct (IHv _ _ _ H2) as (I2 & F2) end.
      split; [ichain|]. apply Forall_app. split; [eapply Forall_imported_mono; eassumption|eapply Forall_imported_ids; eassumption].
    - (* callable *)
      assert (IHp' : Forall lv_ok ps) by (eapply Forall_impl; [|exact IHp]; cbn; tauto).
      destruct IHr as [IHr IHrt]. minv_all.
      match goal with H : mmap _ ps _ = Ok _ |- _ => destruct (mmap_imp _ named_leaves ps IHp' _ _ _ H) as (I1 & F1); clear H end.
      assert (GEN : forall s1 y s2, tstring r s1 = Ok (y, s2) -> imp s1 s2 /\ Forall (fun nq => imported (snd nq) s1 s2) (named_leaves r)) by exact IHr.
      destruct r; minv_all;
        try (match goal with H : type_string _ _ _ _ _ = Ok _ |- _ => destruct (GEN _ _ _ H) as (I2 & F2) end;
             split; [ichain|apply Forall_app; split; [eapply Forall_imported_mono; eassumption|eapply Forall_imported_ids; eassumption]]).
      * destruct (str_eqb name (K"None")); minv_all.
        -- split; [assumption|]. rewrite app_nil_r. assumption.
        -- match goal with H : type_string _ _ _ _ _ = Ok _ |- _ => destruct (GEN _ _ _ H) as (I2 & F2) end.
           split; [ichain|apply Forall_app; split; [eapply Forall_imported_mono; eassumption|eapply Forall_imported_ids; eassumption]].
      * match goal with H : mmap _ ?rs _ = Ok _ |- _ =>
          destruct (mmap_imp _ named_leaves rs (IHrt _ eq_refl) _ _ _ H) as (I2 & F2) end.
        split; [ichain|apply Forall_app; split; [eapply Forall_imported_mono; eassumption|eapply Forall_imported_ids; eassumption]].
    - (* set *)
      assert (IH' : Forall lv_ok ts) by (eapply Forall_impl; [|exact IH]; cbn; tauto).
      minv_all. imps.
      match goal with H : mmap _ ts _ = Ok _ |- _ => destruct (mmap_imp _ named_leaves ts IH' _ _ _ H) as (I1 & F1) end.
      split; [ichain|]. eapply Forall_imported_mono; [|exact F1]. ichain.
    - (* literal *) minv_all. split; [apply imp_refl|constructor].
    - (* final *) destruct IH as [IH _]. eauto.
    - (* tuple *)
      assert (IH' : Forall lv_ok ts) by (eapply Forall_impl; [|exact IH]; cbn; tauto).
      minv_all. imps.
      match goal with H : mmap _ ts _ = Ok _ |- _ => destruct (mmap_imp _ named_leaves ts IH' _ _ _ H) as (I1 & F1) end.
      split; [ichain|]. eapply Forall_imported_ids; eassumption.
    - intros ts0 E. inversion E; subst. eapply Forall_impl; [|exact IH]. cbn. tauto.
    - (* type variable *) minv_all. split; [apply imp_refl|constructor].
    - minv_all. split; [apply imp_refl|constructor].
  Qed.

  Theorem type_string_imports : forall t s x s',
    tstring t s = Ok (x, s') ->
    imp s s' /\ Forall (fun nq : str * str => imported (snd nq) s s') (named_leaves t).
  Proof. intro t. exact (proj1 (type_string_imports_strong t)). Qed.

  (* ---------- parameters, results, attributes, superclasses ---------- *)
  Definition param_leaves (p : param) : list (str * str) :=
    match p_type p with
    | Some t => named_leaves (match p_assigned p, t with POSITIONAL_VARARG, TTuple ts => TList ts | _, _ => t end)
    | None => []
    end.

  Lemma render_default_imp p s x s' : render_default p s = Ok (x, s') -> imp s s'.
  Proof.
    unfold render_default. destruct (p_default p); intro H; minv_all; try apply imp_refl.
    - destruct (p_assigned p); try (minv_all; apply imp_refl). destruct (str_eqb _ _); minv_all; apply imp_refl.
    - eapply add_todo_imp; eassumption.
  Qed.

  Lemma if_add_todo_imp (b : bool) k s x s' : (if b then add_todo k else ret tt) s = Ok (x, s') -> imp s s'.
  Proof. destruct b; intro H; [eapply add_todo_imp; eassumption|minv_all; apply imp_refl]. Qed.

  Lemma param_fields_imports p s x s' :
    param_fields classes reexport_map nc p s = Ok (x, s') ->
    imp s s' /\ Forall (fun nq : str * str => imported (snd nq) s s') (param_leaves p).
  Proof.
    unfold param_fields, param_leaves. intro H. minv_all.
    match goal with H : (if is_vararg _ then _ else _) _ = Ok _ |- _ => apply if_add_todo_imp in H end.
    match goal with H : (match p_assigned p with _ => _ end) ?sa = Ok (_, ?sb) |- _ =>
      assert (EK : imp sa sb) by (destruct (p_assigned p); try (minv_all; apply imp_refl); eapply if_add_todo_imp; exact H); clear H end.
    destruct (p_type p) as [t|].
    - minv_all.
      match goal with H : type_string _ _ _ _ _ = Ok _ |- _ => destruct (type_string_imports _ _ _ _ H) as (IT & FT); clear H end.
      destruct (p_optional p); minv_all.
      + match goal with H : render_default _ _ = Ok _ |- _ => apply render_default_imp in H end.
        split; [ichain|]. eapply Forall_imported_ids; [eassumption|]. eapply Forall_imported_mono; [|exact FT]. ichain.
      + split; [ichain|]. eapply Forall_imported_mono; [|exact FT]. ichain.
    - minv_all. imps. split; [ichain|constructor].
  Qed.

  Lemma parameter_string_imports ps indent im s x s' :
    parameter_string classes reexport_map nc ps indent im s = Ok (x, s') ->
    imp s s' /\ Forall (fun nq : str * str => imported (snd nq) s s') (flat_map param_leaves (if im then tl ps else ps)).
  Proof.
    unfold parameter_string. intro H. minv_all.
    match goal with H : mmap _ _ _ = Ok _ |- _ =>
      eapply (mmap_imp _ param_leaves) in H;
        [destruct H as (I1 & F1)
        |apply Forall_forall; intros p _ s1 y s2 HP; unfold one_param in HP; minv_all; eapply param_fields_imports; eassumption] end.
    match goal with H : (match ?d with [] => _ | _ => _ end) _ = Ok _ |- _ => destruct d; minv_all; split; assumption end.
  Qed.

  (* results: those rendered before a `None` result *)
  Fixpoint result_leaves (rs : list result) : list (str * str) :=
    match rs with
    | [] => []
    | r :: rest =>
      match r_type r with
      | None => result_leaves rest
      | Some t => if is_none_result t then [] else named_leaves t ++ result_leaves rest
      end
    end.

  Lemma result_items_imports rs : forall acc s x s',
    result_items classes reexport_map nc rs acc s = Ok (x, s') ->
    imp s s' /\ Forall (fun nq : str * str => imported (snd nq) s s') (result_leaves rs).
  Proof.
    induction rs as [|r rest IH]; intros acc s x s' H; cbn [result_items result_leaves] in *.
    - minv_all. split; [apply imp_refl|constructor].
    - destruct (r_type r) as [t|]; [|eauto].
      destruct (is_none_result t); [minv_all; split; [apply imp_refl|constructor]|].
      minv_all.
      match goal with H : type_string _ _ _ _ _ = Ok _ |- _ => destruct (type_string_imports _ _ _ _ H) as (IT & FT); clear H end.
      match goal with H : (match ?ts with [] => _ | _ => _ end) _ = Ok _ |- _ => destruct ts end;
        (match goal with H : result_items _ _ _ _ _ _ = Ok _ |- _ => destruct (IH _ _ _ _ H) as (I2 & F2) end;
         split; [ichain|apply Forall_app; split; [eapply Forall_imported_mono; eassumption|eapply Forall_imported_ids; eassumption]]).
  Qed.

  Lemma result_string_imports rs s x s' :
    result_string classes reexport_map nc rs s = Ok (x, s') ->
    imp s s' /\ Forall (fun nq : str * str => imported (snd nq) s s') (result_leaves rs).
  Proof.
    unfold result_string. intro H. minv_all.
    match goal with H : result_items _ _ _ _ _ _ = Ok _ |- _ => destruct (result_items_imports _ _ _ _ _ H) as (I1 & F1); clear H end.
    match goal with H : (match ?it with Some _ => _ | None => _ end) _ = Ok _ |- _ => destruct it as [[|a [|b l]]|] end; minv_all; imps;
      (split; [ichain|]); try assumption. eapply Forall_imported_mono; eassumption.
  Qed.

  (* an attribute *)
  Lemma type_string_opt_imports ot s x s' :
    type_string_opt classes reexport_map nc ot s = Ok (x, s') ->
    imp s s' /\ Forall (fun nq : str * str => imported (snd nq) s s') (match ot with Some t => named_leaves t | None => [] end).
  Proof. unfold type_string_opt. destruct ot; intro H; [eapply type_string_imports; exact H|minv_all; split; [apply imp_refl|constructor]]. Qed.

  (* the superclass loop: every public superclass is imported (when needed) *)
  Lemma super_loop_imports (inline : str -> M str) :
    (forall sc s x s', inline sc s = Ok (x, s') -> imp s s') ->
    forall sups names text s r s', super_loop classes reexport_map inline sups names text s = Ok (r, s') ->
    imp s s' /\ Forall (fun sc => imported sc s s') (filter (fun sc => negb (is_internal (super_name sc))) sups).
  Proof.
    intro Hi. induction sups as [|sc rest IH]; intros names text s r s' H; cbn [super_loop filter] in *.
    - minv_all. split; [apply imp_refl|constructor].
    - destruct (negb (is_internal (super_name sc))); minv_all.
      + match goal with H : add_to_imports _ _ _ _ = Ok _ |- _ => apply add_to_imports_effect in H; destruct H as (I1 & F1) end.
        match goal with H : super_loop _ _ _ _ _ _ _ = Ok _ |- _ => destruct (IH _ _ _ _ _ H) as (I2 & F2) end.
        split; [ichain|]. constructor.
        * eapply imported_mono; [exact (proj2 I2)|exact F1].
        * eapply Forall_impl; [|exact F2]. intros q Hq. eapply imported_ids; [exact (proj1 I1)|exact Hq].
      + match goal with H : inline _ _ = Ok _ |- _ => apply Hi in H end.
        match goal with H : super_loop _ _ _ _ _ _ _ = Ok _ |- _ => destruct (IH _ _ _ _ _ H) as (I2 & F2) end.
        split; [ichain|]. eapply Forall_impl; [|exact F2]. intros q Hq. eapply imported_ids; [|exact Hq].
        match goal with H : imp s _ |- _ => exact (proj1 H) end.
  Qed.

  (* ---------- a whole function ---------- *)
  Definition tvar_leaves (gens : list str) (is_method : bool) (tvs : list (str * option ty)) : list (str * str) :=
    flat_map (fun tv : str * option ty =>
                if negb is_method || negb (mem_str (conv_esc nc (fst tv)) gens)
                then match snd tv with Some ub => named_leaves ub | None => [] end
                else []) tvs.

  Lemma create_todo_msg_imp indent s x s' : create_todo_msg indent s = Ok (x, s') -> imp s s'.
  Proof.
    unfold create_todo_msg. destruct (g_todos s); [intro H; inversion H; subst; apply imp_refl|].
    destruct (mapM _ _); [|discriminate]. intro H. inversion H; subst. split; [repeat split|apply incl_refl].
  Qed.

  Lemma type_var_info_imports f is_method s x s' :
    type_var_info classes reexport_map nc f is_method s = Ok (x, s') ->
    imp s s' /\ Forall (fun nq : str * str => imported (snd nq) s s') (tvar_leaves (g_class_generics s) is_method (f_tvars f)).
  Proof.
    unfold type_var_info, tvar_leaves. destruct (f_tvars f) as [|tv0 tvs0] eqn:TV.
    - intro H. minv_all. split; [apply imp_refl|constructor].
    - intro H. minv_all. remember (tv0 :: tvs0) as tvs. clear Heqtvs TV.
      match goal with H : (match ?d with [] => _ | _ => _ end) ?sa = Ok (_, ?sb) |- _ => assert (sb = sa) by (destruct d; minv_all; reflexivity); subst; clear H end.
      assert (GEN : forall l s1 ys s2, g_class_generics s1 = g_class_generics s ->
                mmap (fun tv : str * option ty =>
                        let n := conv_esc nc (fst tv) in
                        mdo s <- get;
                        if negb is_method || negb (mem_str n (g_class_generics s)) then
                          match snd tv with
                          | Some ub => mdo x <- type_string classes reexport_map nc ub; ret [n ++ K" sub " ++ x]
                          | None => ret [n]
                          end
                        else ret []) l s1 = Ok (ys, s2) ->
                imp s1 s2 /\
                Forall (fun nq : str * str => imported (snd nq) s1 s2)
                  (flat_map (fun tv : str * option ty =>
                            if negb is_method || negb (mem_str (conv_esc nc (fst tv)) (g_class_generics s))
                            then match snd tv with Some ub => named_leaves ub | None => [] end else []) l)).
      { induction l as [|tv l IHl]; intros s1 ys s2 G H1; cbn in H1.
        - minv_all. split; [apply imp_refl|constructor].
        - minv_all. cbn [flat_map]. rewrite <- G.
          destruct (negb is_method || negb (mem_str _ _)).
          + destruct (snd tv) as [ub|]; minv_all.
            * match goal with H : type_string _ _ _ _ _ = Ok _ |- _ =>
                destruct (type_string_imports _ _ _ _ H) as (IT & FT); destruct (type_string_marks _ _ _ _ _ _ _ H) as (LT & (_ & _ & GG) & _); clear H end.
              match goal with H : mmap _ l _ = Ok _ |- _ => apply IHl in H; [destruct H as (I2 & F2)|congruence] end.
              split; [ichain|]. rewrite G. apply Forall_app. split; [eapply Forall_imported_mono; eassumption|eapply Forall_imported_ids; eassumption].
            * match goal with H : mmap _ l _ = Ok _ |- _ => apply IHl in H; [destruct H as (I2 & F2)|assumption] end.
              split; [assumption|]. rewrite G. exact F2.
          + minv_all.
            match goal with H : mmap _ l _ = Ok _ |- _ => apply IHl in H; [destruct H as (I2 & F2)|assumption] end.
            split; [assumption|]. rewrite G. exact F2. }
      match goal with H : mmap _ tvs _ = Ok _ |- _ => eapply GEN; [reflexivity|exact H] end.
  Qed.

  Definition func_leaves (gens : list str) (is_method : bool) (f : func) : list (str * str) :=
    flat_map param_leaves (if negb (f_static f) && is_method then tl (f_params f) else f_params f) ++
    tvar_leaves gens is_method (f_tvars f) ++ result_leaves (f_results f).

  Theorem function_string_imports f indent is_method in_rx s x s' :
    function_string classes reexport_map nc f indent is_method in_rx s = Ok (x, s') ->
    (if negb is_method && negb in_rx then shorter_reexport (f_name f) (f_reexported_by f) s else None) = None ->
    imp s s' /\ Forall (fun nq : str * str => imported (snd nq) s s') (func_leaves (g_class_generics s) is_method f).
  Proof.
    unfold function_string, func_leaves. intros H HR. minv_all. rewrite HR in *. minv_all.
    match goal with H : (if f_classm f then _ else _) s = Ok (_, ?sa) |- _ =>
      assert (G0 : g_class_generics sa = g_class_generics s) by (destruct (if_add_todo_ext _ _ _ _ _ H) as (_ & _ & G); exact G);
      apply if_add_todo_imp in H; rename H into I0 end.
    match goal with H : parameter_string _ _ _ _ _ _ ?sa = Ok (_, ?sb) |- _ =>
      assert (G1 : g_class_generics sb = g_class_generics sa)
        by (destruct (parameter_string_marks _ _ _ _ _ _ _ _ _ H) as (? & (_ & _ & G) & _); exact G);
      apply parameter_string_imports in H; destruct H as (I1 & F1) end.
    match goal with H : type_var_info _ _ _ _ _ _ = Ok _ |- _ => apply type_var_info_imports in H; destruct H as (I2 & F2) end.
    match goal with H : result_string _ _ _ _ _ = Ok _ |- _ => apply result_string_imports in H; destruct H as (I3 & F3) end.
    match goal with H : create_todo_msg _ _ = Ok _ |- _ => apply create_todo_msg_imp in H; rename H into I4 end.
    rewrite G1, G0 in F2.
    split; [ichain|]. apply Forall_app. split; [|apply Forall_app; split].
    - eapply Forall_imported_ids; [exact I0|]. eapply Forall_imported_mono; [|exact F1]. ichain.
    - eapply Forall_imported_ids; [eapply imp_trans; [exact I0|exact I1]|]. eapply Forall_imported_mono; [|exact F2]. ichain.
    - eapply Forall_imported_ids; [eapply imp_trans; [exact I0|eapply imp_trans; [exact I1|exact I2]]|].
      eapply Forall_imported_mono; [|exact F3]. ichain.
  Qed.

  (* ---------- imports are never lost: every renderer only adds to the import set and leaves the module ids alone ---------- *)
  Lemma mmap_imp_only {T U} (f : T -> M U) (l : list T) :
    (forall x s y s', f x s = Ok (y, s') -> imp s s') -> forall s ys s', mmap f l s = Ok (ys, s') -> imp s s'.
  Proof.
    intro Hf. induction l as [|x r IH]; intros s ys s' H; cbn in H; minv_all; [apply imp_refl|].
    eapply imp_trans; [eapply Hf; eassumption|eapply IH; eassumption].
  Qed.

  (* each element is processed between two states that lie between the start and the end *)
  Lemma mmap_trace {T U} (f : T -> M U) (l : list T) :
    (forall x s y s', f x s = Ok (y, s') -> imp s s') ->
    forall s ys s', mmap f l s = Ok (ys, s') ->
    Forall (fun x => exists y sa sb, f x sa = Ok (y, sb) /\ imp s sa /\ imp sb s') l.
  Proof.
    intro Hf. induction l as [|x r IH]; intros s ys s' H; cbn in H; minv_all; [constructor|].
    match goal with H1 : f x s = Ok (?y, ?s1), H2 : mmap f r _ = Ok _ |- _ =>
      pose proof (Hf _ _ _ _ H1) as I1; pose proof (mmap_imp_only f r Hf _ _ _ H2) as I2; pose proof (IH _ _ _ H2) as F end.
    constructor.
    - eexists _, s, _. split; [eassumption|]. split; [apply imp_refl|exact I2].
    - eapply Forall_impl; [|exact F]. intros z (y & sa & sb & HZ & A & B). exists y, sa, sb. split; [exact HZ|]. split; [eapply imp_trans; eassumption|exact B].
  Qed.

  Lemma property_string_imp f indent s x s' : property_string classes reexport_map nc f indent s = Ok (x, s') -> imp s s'.
  Proof.
    unfold property_string. intro H. minv_all.
    match goal with H : type_string _ _ _ _ _ = Ok _ |- _ => apply type_string_imports in H; destruct H as (I1 & _) end.
    match goal with H : create_todo_msg _ _ = Ok _ |- _ => apply create_todo_msg_imp in H end. ichain.
  Qed.

  Lemma bucket_imp s f : g_module_id (f s) = g_module_id s -> g_reexport_module_id (f s) = g_reexport_module_id s ->
    g_creating_reexport (f s) = g_creating_reexport s -> g_imports (f s) = g_imports s -> imp s (f s).
  Proof. intros A B C D. split; [repeat split; assumption|rewrite D; apply incl_refl]. Qed.

  Lemma function_string_imp f indent is_method rx s x s' :
    function_string classes reexport_map nc f indent is_method rx s = Ok (x, s') -> imp s s'.
  Proof.
    intro H. destruct (if negb is_method && negb rx then shorter_reexport (f_name f) (f_reexported_by f) s else None) as [[bucket alias]|] eqn:HR.
    - unfold function_string in H. minv_all. rewrite HR in *. minv_all.
      destruct alias as [[|a al]|]; minv_all; (split; [repeat split|apply incl_refl]).
    - exact (proj1 (function_string_imports _ _ _ _ _ _ _ H HR)).
  Qed.

  Lemma class_methods_imp ms inner ic already : forall props meths names s r s',
    class_methods classes reexport_map nc ms inner ic already props meths names s = Ok (r, s') -> imp s s'.
  Proof.
    induction ms as [|m rest IH]; intros props meths names s r s' H; cbn [class_methods] in H.
    - minv_all. apply imp_refl.
    - destruct (_ || _); [eauto|]. destruct (f_prop m); minv_all.
      + eapply imp_trans; [eapply property_string_imp; eassumption|eapply IH; eassumption].
      + eapply imp_trans; [eapply function_string_imp; eassumption|eapply IH; eassumption].
  Qed.

  Lemma class_attrs_imp ats inner : forall acc names s r s',
    class_attrs classes reexport_map nc ats inner acc names s = Ok (r, s') -> imp s s'.
  Proof.
    induction ats as [|a rest IH]; intros acc names s r s' H; cbn [class_attrs] in H.
    - minv_all. apply imp_refl.
    - destruct (negb (a_public a)); [eauto|].
      destruct (match a_type a with Some (TTypeVar _ _) => true | _ => false end); [eauto|]. minv_all.
      match goal with H : type_string_opt _ _ _ _ _ = Ok _ |- _ => apply type_string_opt_imports in H; destruct H as (I1 & _) end.
      match goal with H : context [add_todo (K"attr without type")] |- _ =>
        match type of H with ?ff ?sa = Ok (_, ?sb) => assert (I2 : imp sa sb);
          [match type of H with (match ?t with [] => _ | _ :: _ => _ end) _ = _ => destruct t end;
           [eapply add_todo_imp; exact H|minv_all; apply imp_refl]|clear H] end end.
      match goal with H : create_todo_msg _ _ = Ok _ |- _ => apply create_todo_msg_imp in H end.
      match goal with H : class_attrs _ _ _ _ _ _ _ _ = Ok _ |- _ => apply IH in H end. ichain.
  Qed.

  Lemma class_method_string_imp ms inner ic already s r s' :
    class_method_string classes reexport_map nc ms inner ic already s = Ok (r, s') -> imp s s'.
  Proof.
    unfold class_method_string. intro H. minv_all.
    match goal with p : (list str * list str * list str)%type |- _ => destruct p as [[? ?] ?] end. minv_all.
    eapply class_methods_imp; eassumption.
  Qed.

  Lemma class_attribute_string_imp ats inner s r s' :
    class_attribute_string classes reexport_map nc ats inner s = Ok (r, s') -> imp s s'.
  Proof.
    unfold class_attribute_string. intro H. minv_all.
    match goal with p : (list str * list str)%type |- _ => destruct p as [? ?] end. minv_all.
    eapply class_attrs_imp; eassumption.
  Qed.

  Lemma ctor_block_imp (c : cls) indent s x s' :
    (if is_abstract c then ret []
     else mdo pi <- (match c_ctor c with
                     | Some k => parameter_string classes reexport_map nc (f_params k) indent true
                     | None => ret []
                     end);
          ret (K"(" ++ pi ++ K")")) s = Ok (x, s') -> imp s s'.
  Proof.
    destruct (is_abstract c); intro H; minv_all; [apply imp_refl|].
    destruct (c_ctor c) as [k|]; minv_all; [|apply imp_refl].
    match goal with H : parameter_string _ _ _ _ _ _ _ = Ok _ |- _ => exact (proj1 (parameter_string_imports _ _ _ _ _ _ H)) end.
  Qed.

  Lemma variance_block_imp (c : cls) s x s' :
    (if nonempty (c_tparams c) || nonempty (match c_ctor c with Some k => f_tvars k | None => [] end) then
       modify (with_generics (fun _ => [])) ;;
       mmap (fun tp => let item := variance_prefix (tp_variance tp) ++ conv_esc nc (tp_name tp) in
                       mdo item' <- (match tp_type tp with
                                     | Some t => mdo x <- type_string classes reexport_map nc t; ret (item ++ K" sub " ++ x)
                                     | None => ret item
                                     end);
                       modify (with_generics (fun g => g ++ [item']))) (c_tparams c) ;;
       mmap (fun tv : str * option ty =>
               mdo s' <- get;
               if mem_str (fst tv) (g_class_generics s') then ret tt
               else modify (with_generics (fun g => g ++ [fst tv]))) (match c_ctor c with Some k => f_tvars k | None => [] end) ;;
       mdo s' <- get;
       match g_class_generics s' with
       | [] => ret []
       | g => ret (K"<" ++ join (K", ") g ++ K">")
       end
     else ret []) s = Ok (x, s') -> imp s s'.
  Proof.
    destruct (_ || _); intro H; minv_all; [|apply imp_refl].
    match goal with H : mmap _ (c_tparams c) _ = Ok _ |- _ => eapply mmap_imp_only in H end.
    - match goal with H : mmap _ _ _ = Ok _ |- _ => eapply mmap_imp_only in H end.
      + match goal with H : (match g_class_generics ?sa with [] => _ | _ => _ end) ?sa = Ok _ |- _ =>
          assert (s' = sa) by (destruct (g_class_generics sa); minv_all; reflexivity); subst end.
        assert (I0 : imp s (with_generics (fun _ => []) s)) by (split; [repeat split|apply incl_refl]). ichain.
      + intros tv s1 y s2 HS. cbn beta in HS. minv_all. destruct (mem_str _ _); minv_all; [apply imp_refl|split; [repeat split|apply incl_refl]].
    - intros tp s1 y s2 HS. cbn beta zeta in HS. minv_all.
      destruct (tp_type tp) as [t|]; minv_all.
      + match goal with H : type_string _ _ _ _ _ = Ok _ |- _ => apply type_string_imports in H; destruct H as (I1 & _) end.
        eapply imp_trans; [exact I1|]. split; [repeat split|apply incl_refl].
      + split; [repeat split|apply incl_refl].
  Qed.

  Ltac mstep := repeat (minv_all;
    try match goal with
        | H : (let '(_, _) := ?p in _) _ = Ok _ |- _ => destruct p
        end).

  Lemma class_strings_imp fuel :
    (forall c indent rx s x s', class_string classes reexport_map nc fuel c indent rx s = Ok (x, s') -> imp s s') /\
    (forall sc inner already s x s', internal_class_string classes reexport_map nc fuel sc inner already s = Ok (x, s') -> imp s s').
  Proof.
    induction fuel as [|fu [IHc IHi]]; (split; [intros c indent rx s x s' H|intros sc inner already s x s' H]); try discriminate.
    - cbn [class_string] in H. minv_all.
      destruct (if negb rx then shorter_reexport _ _ _ else None) as [[bucket alias]|].
      + minv_all. destruct alias as [[|a al]|]; minv_all; (split; [repeat split|apply incl_refl]).
      + mstep.
        match goal with H : (if is_abstract c then _ else _) _ = Ok _ |- _ => apply ctor_block_imp in H end.
        match goal with H : (if nonempty (c_tparams c) || _ then _ else _) _ = Ok _ |- _ => apply variance_block_imp in H end.
        match goal with H : create_todo_msg _ _ = Ok _ |- _ => apply create_todo_msg_imp in H end.
        match goal with H : class_attribute_string _ _ _ _ _ _ = Ok _ |- _ => apply class_attribute_string_imp in H end.
        match goal with H : mmap _ (c_classes c) _ = Ok _ |- _ => eapply mmap_imp_only in H end.
        2:{ intros ic sa1 y sa2 HS. cbn beta in HS. destruct (c_public ic); minv_all; [eapply IHc; eassumption|apply imp_refl]. }
        match goal with H : class_method_string _ _ _ _ _ _ _ _ = Ok _ |- _ => apply class_method_string_imp in H end.
        match goal with H : (if nonempty (c_supers c) && negb (is_abstract c) then _ else _) ?sa = Ok (_, ?sb) |- _ =>
          assert (IS : imp sa sb); [|clear H] end.
        { destruct (nonempty (c_supers c) && negb (is_abstract c)).
          - match goal with HS : super_loop _ _ _ _ _ _ _ = Ok _ |- _ => eapply super_loop_imports in HS; [exact (proj1 HS)|] end.
            intros sc0 sa x' sb HI. cbn beta in HI. exact (IHi _ _ _ _ _ _ HI).
          - minv_all. apply imp_refl. }
        match goal with H : (if 2 <=? ?n then _ else _) _ = Ok _ |- _ => apply if_add_todo_imp in H end.
        match goal with H : create_todo_msg _ _ = Ok _ |- _ => apply create_todo_msg_imp in H end.
        match goal with H : _ = Ok (x, s') |- _ => match type of H with context [match ?t with [] => _ | _ :: _ => _ end] => destruct t end end;
          minv_all; ichain.
    - cbn [internal_class_string] in H. destruct (get_class_in_package classes sc) as [k|]; [|discriminate]. mstep.
      match goal with H : class_method_string _ _ _ _ _ _ _ _ = Ok _ |- _ => apply class_method_string_imp in H end.
      match goal with H : mmap _ (c_classes k) _ = Ok _ |- _ => eapply mmap_imp_only in H end.
      2:{ intros ic s1 y s2 HS. cbn beta in HS. destruct (negb (is_internal (c_name ic))); minv_all; [eapply IHc; eassumption|apply imp_refl]. }
      match goal with H : mmap _ (c_supers k) _ = Ok _ |- _ => eapply mmap_imp_only in H end.
      2:{ intros ss s1 y s2 HS. cbn beta in HS. destruct (is_internal _); [eapply IHi; eassumption|minv_all; apply imp_refl]. }
      ichain.
  Qed.

  Theorem class_string_imp fuel c indent rx s x s' :
    class_string classes reexport_map nc fuel c indent rx s = Ok (x, s') -> imp s s'.
  Proof. exact (proj1 (class_strings_imp fuel) c indent rx s x s'). Qed.

  (* ---------- a module: the named types of every public function written here are imported, and the import set printed ---------- *)
  Definition impg (s s' : gst) : Prop := imp s s' /\ g_class_generics s' = g_class_generics s.
  Lemma impg_refl s : impg s s.
  Proof. split; [apply imp_refl|reflexivity]. Qed.
  Lemma impg_trans a b c : impg a b -> impg b c -> impg a c.
  Proof. intros [I1 G1] [I2 G2]. split; [eapply imp_trans; eassumption|congruence]. Qed.

  Lemma mmap_trace_g {T U} (f : T -> M U) (l : list T) :
    (forall x s y s', f x s = Ok (y, s') -> impg s s') ->
    forall s ys s', mmap f l s = Ok (ys, s') ->
    impg s s' /\ Forall (fun x => exists y sa sb, f x sa = Ok (y, sb) /\ impg s sa /\ impg sb s') l.
  Proof.
    intro Hf. induction l as [|x r IH]; intros s ys s' H; cbn in H; minv_all; [split; [apply impg_refl|constructor]|].
    match goal with H1 : f x s = Ok (?y, ?s1), H2 : mmap f r _ = Ok _ |- _ =>
      pose proof (Hf _ _ _ _ H1) as I1; destruct (IH _ _ _ H2) as (I2 & F) end.
    split; [eapply impg_trans; eassumption|]. constructor.
    - eexists _, s, _. split; [eassumption|]. split; [apply impg_refl|exact I2].
    - eapply Forall_impl; [|exact F]. intros z (y & sa & sb & HZ & A & B). exists y, sa, sb. split; [exact HZ|]. split; [eapply impg_trans; eassumption|exact B].
  Qed.

  Lemma function_string_generics f indent is_method rx s x s' :
    function_string classes reexport_map nc f indent is_method rx s = Ok (x, s') -> g_class_generics s' = g_class_generics s.
  Proof.
    unfold function_string. intro H. minv_all.
    destruct (if negb is_method && negb rx then shorter_reexport _ _ _ else None) as [[bucket alias]|].
    - minv_all. destruct alias as [[|a al]|]; minv_all; reflexivity.
    - minv_all.
      match goal with H : (if f_classm f then _ else _) _ = Ok _ |- _ => apply if_add_todo_ext in H; destruct H as (_ & _ & G0) end.
      match goal with H : parameter_string _ _ _ _ _ _ _ = Ok _ |- _ => apply parameter_string_marks in H; destruct H as (? & (_ & _ & G1) & _) end.
      match goal with H : type_var_info _ _ _ _ _ _ = Ok _ |- _ => apply type_var_info_marks in H; destruct H as (? & (_ & _ & G2) & _) end.
      match goal with H : result_string _ _ _ _ _ = Ok _ |- _ => apply result_string_marks in H; destruct H as (? & (_ & _ & G3) & _) end.
      match goal with H : create_todo_msg _ _ = Ok _ |- _ => apply create_todo_msg_text in H; destruct H as (_ & _ & G4) end.
      congruence.
  Qed.

  Lemma shorter_reexport_ids n r s s' : ids_same s s' -> shorter_reexport n r s' = shorter_reexport n r s.
  Proof. intros (A & B & C). unfold shorter_reexport, get_module_id. rewrite A, B, C. reflexivity. Qed.

  Theorem module_string_imports m s text pkg s' :
    module_string classes reexport_map nc m s = Ok ((text, pkg), s') ->
    exists s0 rx, g_imports s0 = [] /\ g_class_generics s0 = [] /\ imp s0 s' /\
      forall f, In f (m_functions m) -> f_public f = true ->
        (if negb rx then shorter_reexport (f_name f) (f_reexported_by f) s0 else None) = None ->
        Forall (fun nq : str * str => imported (snd nq) s0 s') (func_leaves [] false f).
  Proof.
    unfold module_string. intro H. minv_all.
    destruct (shortest_public_reexport reexport_map (m_name m) [] true) as [[pinfo ?] tie]. minv_all.
    match goal with H : (_, _) = (_, _) |- _ => inversion H; subst; clear H end.
    match goal with H : mmap _ (m_functions m) ?sa = Ok (_, ?sb) |- _ => exists sa, (nonempty pinfo); rename H into HF; remember sa as sm eqn:ESM end.
    assert (E0 : g_imports sm = [] /\ g_class_generics sm = []) by (subst sm; split; reflexivity). clear ESM. destruct E0 as [E0 G0].
    apply mmap_trace_g in HF.
    2:{ intros f sa y sb HS. cbn beta in HS. destruct (f_public f); minv_all; [|apply impg_refl].
        split; [eapply function_string_imp; eassumption|eapply function_string_generics; eassumption]. }
    destruct HF as ([IF _] & TR).
    match goal with H : mmap _ (m_classes m) _ = Ok _ |- _ => eapply mmap_imp_only in H; [rename H into IC|] end.
    2:{ intros c sa y sb HS. cbn beta in HS. destruct (c_public c && negb (c_exc c)); minv_all; [eapply class_string_imp; eassumption|apply imp_refl]. }
    refine (conj E0 (conj G0 (conj (imp_trans _ _ _ IF IC) _))).
    intros f Hf Pf HR. rewrite Forall_forall in TR. destruct (TR f Hf) as (y & sa & sb & HS & [IA GA] & [IB GB]).
    cbn beta in HS. rewrite Pf in HS. minv_all.
    match goal with H : function_string _ _ _ _ _ _ _ _ = Ok _ |- _ =>
      apply function_string_imports in H; [destruct H as (I1 & F1)|cbn [negb andb]; rewrite (shorter_reexport_ids _ _ _ _ (proj1 IA)); exact HR] end.
    rewrite GA, G0 in F1.
    eapply Forall_imported_ids; [exact IA|]. eapply Forall_imported_mono; [|exact F1]. eapply imp_trans; eassumption.
  Qed.

  (* ---------- inside a class: attributes and methods ---------- *)
  Definition attr_leaves (a : attr) : list (str * str) := match a_type a with Some t => named_leaves t | None => [] end.
  Definition all_imported (s0 s' : gst) (l : list (str * str)) : Prop := Forall (fun nq => imported (snd nq) s0 s') l.

  Lemma all_imported_mono l s0 s1 s2 : imp s1 s2 -> all_imported s0 s1 l -> all_imported s0 s2 l.
  Proof. apply Forall_imported_mono. Qed.
  Lemma all_imported_ids l s0 s0' s' : imp s0 s0' -> all_imported s0' s' l -> all_imported s0 s' l.
  Proof. apply Forall_imported_ids. Qed.

  Lemma class_attrs_imports ats inner : forall acc names s r s',
    class_attrs classes reexport_map nc ats inner acc names s = Ok (r, s') ->
    imp s s' /\ Forall (fun a => all_imported s s' (attr_leaves a)) (filter Markers.attr_rendered ats).
  Proof.
    induction ats as [|a rest IH]; intros acc names s r s' H; cbn [class_attrs] in H.
    - minv_all. split; [apply imp_refl|constructor].
    - cbn [filter]. unfold Markers.attr_rendered at 1.
      destruct (a_public a); cbn [negb andb] in *; [|eauto].
      destruct (match a_type a with Some (TTypeVar _ _) => true | _ => false end) eqn:TV; cbn [negb] in *; [eauto|].
      minv_all.
      match goal with H : type_string_opt _ _ _ _ _ = Ok _ |- _ => apply type_string_opt_imports in H; destruct H as (I1 & F1) end.
      match goal with H : context [add_todo (K"attr without type")] |- _ =>
        match type of H with ?ff ?sa = Ok (_, ?sb) => assert (I2 : imp sa sb);
          [match type of H with (match ?t with [] => _ | _ :: _ => _ end) _ = _ => destruct t end;
           [eapply add_todo_imp; exact H|minv_all; apply imp_refl]|clear H] end end.
      match goal with H : create_todo_msg _ _ = Ok _ |- _ => apply create_todo_msg_imp in H; rename H into I3 end.
      match goal with H : class_attrs _ _ _ _ _ _ _ _ = Ok _ |- _ => destruct (IH _ _ _ _ _ H) as (I4 & F4) end.
      split; [ichain|]. constructor.
      + unfold attr_leaves. eapply all_imported_mono; [|exact F1]. ichain.
      + eapply Forall_impl; [|exact F4]. intros b Hb. eapply all_imported_ids; [|exact Hb]. ichain.
  Qed.

  Definition method_leaves (gens : list str) (m : func) : list (str * str) :=
    if f_prop m then named_leaves (TUnion (flat_map (fun r => match r_type r with Some t => [t] | None => [] end) (f_results m)))
    else func_leaves gens true m.

  Lemma property_string_imports f indent s x s' :
    property_string classes reexport_map nc f indent s = Ok (x, s') ->
    imp s s' /\ g_class_generics s' = g_class_generics s /\
    all_imported s s' (named_leaves (TUnion (flat_map (fun r => match r_type r with Some t => [t] | None => [] end) (f_results f)))).
  Proof.
    unfold property_string. intro H. minv_all.
    match goal with H : type_string _ _ _ _ _ = Ok _ |- _ =>
      destruct (type_string_marks _ _ _ _ _ _ _ H) as (? & (_ & _ & G1) & _); apply type_string_imports in H; destruct H as (I1 & F1) end.
    match goal with H : create_todo_msg _ _ = Ok _ |- _ =>
      destruct (create_todo_msg_text _ _ _ _ H) as (_ & _ & G2); apply create_todo_msg_imp in H end.
    split; [ichain|]. split; [congruence|]. eapply all_imported_mono; [|exact F1]. assumption.
  Qed.

  Lemma class_methods_imports ms inner ic already : forall props meths names s r s',
    class_methods classes reexport_map nc ms inner ic already props meths names s = Ok (r, s') ->
    imp s s' /\ g_class_generics s' = g_class_generics s /\
    Forall (fun m => all_imported s s' (method_leaves (g_class_generics s) m)) (filter (fun m => negb (method_skipped ic already m)) ms).
  Proof.
    induction ms as [|m rest IH]; intros props meths names s r s' H; cbn [class_methods filter] in H |- *.
    - minv_all. split; [apply imp_refl|]. split; [reflexivity|constructor].
    - fold (method_skipped ic already m) in H. destruct (method_skipped ic already m) eqn:SK; cbn [negb]; [eauto|].
      destruct (f_prop m) eqn:FP; minv_all.
      + match goal with H : property_string _ _ _ _ _ _ = Ok _ |- _ => apply property_string_imports in H; destruct H as (I1 & G1 & F1) end.
        match goal with H : class_methods _ _ _ _ _ _ _ _ _ _ _ = Ok _ |- _ => destruct (IH _ _ _ _ _ _ H) as (I2 & G2 & F2) end.
        split; [ichain|]. split; [congruence|]. constructor; [unfold method_leaves; rewrite FP; eapply all_imported_mono; eassumption|].
        eapply Forall_impl; [|exact F2]. intros b Hb. rewrite G1 in Hb. eapply all_imported_ids; eassumption.
      + match goal with H : function_string _ _ _ _ _ _ _ _ = Ok _ |- _ =>
          pose proof (function_string_generics _ _ _ _ _ _ _ H) as G1;
          destruct (function_string_imports _ _ _ _ _ _ _ H eq_refl) as (I1 & F1); clear H end.
        match goal with H : class_methods _ _ _ _ _ _ _ _ _ _ _ = Ok _ |- _ => destruct (IH _ _ _ _ _ _ H) as (I2 & G2 & F2) end.
        split; [ichain|]. split; [congruence|]. constructor; [unfold method_leaves; rewrite FP; eapply all_imported_mono; eassumption|].
        eapply Forall_impl; [|exact F2]. intros b Hb. rewrite G1 in Hb. eapply all_imported_ids; eassumption.
  Qed.

  (* ---------- a whole class written here ---------- *)
  Definition class_sig_leaves (c : cls) : list (str * str) :=
    (if is_abstract c then [] else match c_ctor c with Some k => flat_map param_leaves (tl (f_params k)) | None => [] end) ++
    (if nonempty (c_tparams c) || nonempty (match c_ctor c with Some k => f_tvars k | None => [] end)
     then flat_map (fun tp => match tp_type tp with Some t => named_leaves t | None => [] end) (c_tparams c) else []).

  Lemma ctor_block_imports (c : cls) indent s x s' :
    (if is_abstract c then ret []
     else mdo pi <- (match c_ctor c with
                     | Some k => parameter_string classes reexport_map nc (f_params k) indent true
                     | None => ret []
                     end);
          ret (K"(" ++ pi ++ K")")) s = Ok (x, s') ->
    imp s s' /\ all_imported s s' (if is_abstract c then [] else match c_ctor c with Some k => flat_map param_leaves (tl (f_params k)) | None => [] end).
  Proof.
    destruct (is_abstract c); intro H; minv_all; [split; [apply imp_refl|constructor]|].
    destruct (c_ctor c) as [k|]; minv_all; [|split; [apply imp_refl|constructor]].
    match goal with H : parameter_string _ _ _ _ _ _ _ = Ok _ |- _ => exact (parameter_string_imports _ _ _ _ _ _ H) end.
  Qed.

  Lemma variance_block_imports (c : cls) s x s' :
    (if nonempty (c_tparams c) || nonempty (match c_ctor c with Some k => f_tvars k | None => [] end) then
       modify (with_generics (fun _ => [])) ;;
       mmap (fun tp => let item := variance_prefix (tp_variance tp) ++ conv_esc nc (tp_name tp) in
                       mdo item' <- (match tp_type tp with
                                     | Some t => mdo x <- type_string classes reexport_map nc t; ret (item ++ K" sub " ++ x)
                                     | None => ret item
                                     end);
                       modify (with_generics (fun g => g ++ [item']))) (c_tparams c) ;;
       mmap (fun tv : str * option ty =>
               mdo s' <- get;
               if mem_str (fst tv) (g_class_generics s') then ret tt
               else modify (with_generics (fun g => g ++ [fst tv]))) (match c_ctor c with Some k => f_tvars k | None => [] end) ;;
       mdo s' <- get;
       match g_class_generics s' with
       | [] => ret []
       | g => ret (K"<" ++ join (K", ") g ++ K">")
       end
     else ret []) s = Ok (x, s') ->
    imp s s' /\
    all_imported s s' (if nonempty (c_tparams c) || nonempty (match c_ctor c with Some k => f_tvars k | None => [] end)
                       then flat_map (fun tp => match tp_type tp with Some t => named_leaves t | None => [] end) (c_tparams c) else []).
  Proof.
    destruct (_ || _); intro H; minv_all; [|split; [apply imp_refl|constructor]].
    match goal with H : mmap _ (c_tparams c) _ = Ok _ |- _ =>
      eapply (mmap_imp _ (fun tp => match tp_type tp with Some t => named_leaves t | None => [] end)) in H; [destruct H as (I1 & F1)|] end.
    - match goal with H : mmap _ _ _ = Ok _ |- _ => eapply mmap_imp_only in H end.
      + match goal with H : (match g_class_generics ?sa with [] => _ | _ => _ end) ?sa = Ok _ |- _ =>
          assert (s' = sa) by (destruct (g_class_generics sa); minv_all; reflexivity); subst end.
        assert (I0 : imp s (with_generics (fun _ => []) s)) by (split; [repeat split|apply incl_refl]).
        split; [ichain|]. eapply all_imported_ids; [exact I0|]. eapply all_imported_mono; eassumption.
      + intros tv s1 y s2 HS. cbn beta in HS. minv_all. destruct (mem_str _ _); minv_all; [apply imp_refl|split; [repeat split|apply incl_refl]].
    - apply Forall_forall. intros tp _ s1 y s2 HS. cbn beta zeta in HS. minv_all.
      destruct (tp_type tp) as [t|]; minv_all.
      + match goal with H : type_string _ _ _ _ _ = Ok _ |- _ => apply type_string_imports in H; destruct H as (I1 & F1) end.
        assert (I2 : forall f z, imp z (with_generics f z)) by (intros f z; split; [repeat split|apply incl_refl]).
        split; [eapply imp_trans; [exact I1|apply I2]|]. eapply Forall_imported_mono; [apply I2|exact F1].
      + split; [split; [repeat split|apply incl_refl]|constructor].
  Qed.

  Theorem class_string_imports fu c indent rx s x s' :
    class_string classes reexport_map nc (S fu) c indent rx s = Ok (x, s') ->
    (if negb rx then shorter_reexport (c_name c) (c_reexported_by c) s else None) = None ->
    imp s s' /\ all_imported s s' (class_sig_leaves c) /\
    Forall (fun a => all_imported s s' (attr_leaves a)) (filter Markers.attr_rendered (c_attrs c)) /\
    (exists gens, Forall (fun m => all_imported s s' (method_leaves gens m)) (filter (fun m => negb (method_skipped false [] m)) (c_methods c))) /\
    Forall (fun sc => imported sc s s')
           (if nonempty (c_supers c) && negb (is_abstract c) then filter (fun sc => negb (is_internal (super_name sc))) (c_supers c) else []).
  Proof.
    cbn [class_string]. intros H HR. minv_all. rewrite HR in *. mstep.
    match goal with H : (if is_abstract c then _ else _) _ = Ok _ |- _ => apply ctor_block_imports in H; destruct H as (I1 & F1) end.
    match goal with H : (if nonempty (c_tparams c) || _ then _ else _) _ = Ok _ |- _ => apply variance_block_imports in H; destruct H as (I2 & F2) end.
    match goal with H : create_todo_msg _ _ = Ok _ |- _ => apply create_todo_msg_imp in H; rename H into I3 end.
    match goal with H : class_attribute_string _ _ _ _ _ _ = Ok _ |- _ =>
      unfold class_attribute_string in H; minv_all;
      match goal with p : (list str * list str)%type |- _ => destruct p as [? ?] end; minv_all end.
    match goal with H : class_attrs _ _ _ _ _ _ _ _ = Ok _ |- _ => apply class_attrs_imports in H; destruct H as (I4 & F4) end.
    match goal with H : mmap _ (c_classes c) _ = Ok _ |- _ => eapply mmap_imp_only in H; [rename H into I5|] end.
    2:{ intros ic sa1 y sa2 HS. cbn beta in HS. destruct (c_public ic); minv_all; [eapply class_string_imp; eassumption|apply imp_refl]. }
    match goal with H : class_method_string _ _ _ _ _ _ _ _ = Ok _ |- _ =>
      unfold class_method_string in H; minv_all;
      match goal with p : (list str * list str * list str)%type |- _ => destruct p as [[? ?] ?] end; minv_all end.
    match goal with H : class_methods _ _ _ _ _ _ _ _ _ _ ?sa = Ok _ |- _ =>
      apply class_methods_imports in H; destruct H as (I6 & _ & F6); remember (g_class_generics sa) as gens eqn:EG; clear EG end.
    match goal with H : (if nonempty (c_supers c) && negb (is_abstract c) then _ else _) ?sa = Ok (_, ?sb) |- _ =>
      assert (IS : imp sa sb /\ Forall (fun sc => imported sc sa sb)
                     (if nonempty (c_supers c) && negb (is_abstract c) then filter (fun sc => negb (is_internal (super_name sc))) (c_supers c) else []));
      [|clear H] end.
    { destruct (nonempty (c_supers c) && negb (is_abstract c)).
      - match goal with HS : super_loop _ _ _ _ _ _ _ = Ok _ |- _ => eapply super_loop_imports in HS; [exact HS|] end.
        intros sc0 sa x' sb HI. cbn beta in HI. exact (proj2 (class_strings_imp fu) _ _ _ _ _ _ HI).
      - minv_all. split; [apply imp_refl|constructor]. }
    destruct IS as (I7 & F7).
    match goal with H : (if 2 <=? ?n then _ else _) _ = Ok _ |- _ => apply if_add_todo_imp in H; rename H into I8 end.
    match goal with H : create_todo_msg _ _ = Ok _ |- _ => apply create_todo_msg_imp in H; rename H into I9 end.
    match goal with H : _ = Ok (x, s') |- _ => match type of H with context [match ?t with [] => _ | _ :: _ => _ end] => destruct t end end; minv_all.
    all: match goal with |- imp _ ?sf /\ _ =>
      assert (IA : imp s sf) by ichain;
      match type of F1 with all_imported _ ?sb _ => assert (J1 : imp sb sf) by ichain end;
      match type of F2 with all_imported ?sa ?sb _ => assert (J2 : imp sb sf) by ichain end;
      match type of F4 with Forall (fun a => all_imported ?sa ?sb _) _ => assert (J4a : imp s sa) by ichain; assert (J4b : imp sb sf) by ichain end;
      match type of F6 with Forall (fun a => all_imported ?sa ?sb _) _ => assert (J6a : imp s sa) by ichain; assert (J6b : imp sb sf) by ichain end;
      match type of F7 with Forall (fun a => imported _ ?sa ?sb) _ => assert (J7a : imp s sa) by ichain; assert (J7b : imp sb sf) by ichain end
    end.
    all: refine (conj IA (conj _ (conj _ (conj _ _)))).
    all: try (unfold class_sig_leaves; apply Forall_app; split;
              [eapply all_imported_mono; [exact J1|exact F1]
              |eapply all_imported_ids; [exact I1|]; eapply all_imported_mono; [exact J2|exact F2]]).
    all: try (eapply Forall_impl; [|exact F4]; intros ? Hz; eapply all_imported_ids; [exact J4a|]; eapply all_imported_mono; [exact J4b|exact Hz]).
    all: try (exists gens; eapply Forall_impl; [|exact F6]; intros ? Hz; eapply all_imported_ids; [exact J6a|]; eapply all_imported_mono; [exact J6b|exact Hz]).
    all: eapply Forall_impl; [|exact F7]; intros ? Hz; eapply imported_ids; [exact (proj1 J7a)|]; eapply imported_mono; [exact (proj2 J7b)|exact Hz].
  Qed.

  (* the import block of a module prints every member of the import set *)
  Theorem imports_string_prints_all s q :
    In q (g_imports s) ->
    exists line, In line (map (fun imp_ => let parts := split_ch dot imp_ in
                                           K"from " ++ escape_path (conv nc (join DOT (removelast parts))) ++ K" import " ++
                                           escape (conv nc (last parts []))) (g_imports s)) /\
                 line = K"from " ++ escape_path (conv nc (join DOT (removelast (split_ch dot q)))) ++ K" import " ++
                        escape (conv nc (last (split_ch dot q) [])).
  Proof. intro H. eexists. split; [|reflexivity]. apply in_map_iff. exists q. split; [reflexivity|exact H]. Qed.
End WithApi.
