(* C05 end to end: for every annotation of the documented grammar, at any nesting depth, the text the generator
   writes for the API type the analyzer produces is the documented mapping of the annotation. *)
From Coq Require Import List Ascii String Bool Arith ZArith Lia.
From SV Require Import Lib.Str Gen.Tables Model.Types Model.Naming Model.Api Model.Back Model.FrontSmall Model.View Model.Front
     Spec.TypeMap Proofs.BackProofs.
Import ListNotations.

Section E2E.
  Variable env : tenv.
  Variable nc : bool.

  (* the inner list recursion of mt1 is mt1_list *)
  Lemma mt1_inst n q args :
    mt1 env (MInst n q args) =
    if mem_str n t_mypy_basic then tret (TNamed n q)
    else if mem_str n t_mypy_iterables then
      do ts <- mt1_list env args;
      if str_eqb n (K"tuple") then Ok (TTuple (fst ts), snd ts)
      else if str_eqb n (K"set") then Ok (TSet (fst ts), snd ts)
      else Ok (TList (fst ts), snd ts)
    else if mem_str n t_mypy_mappings then
      match args with
      | k :: v :: _ => do k' <- mt1 env k; do v' <- mt1 env v; Ok (TDict (fst k') (fst v'), snd k' || snd v')
      | _ => Err IndexError
      end
    else match args with
         | [] => tret (TNamed n q)
         | _ => do ts <- mt1_list env args; Ok (TNamedSeq n q (fst ts), snd ts)
         end.
  Proof.
    assert (E : forall l, (fix all (l : list mtype) : res (list ty * bool) :=
                             match l with
                             | [] => Ok ([], false)
                             | x :: r => do y <- mt1 env x; do ys <- all r; Ok (fst y :: fst ys, snd y || snd ys)
                             end) l = mt1_list env l).
    { induction l as [|x r IH]; cbn; [reflexivity|]. destruct (mt1 env x); cbn; [|reflexivity]. rewrite IH. reflexivity. }
    cbn [mt1]. rewrite !E. reflexivity.
  Qed.

  Lemma mt1_all_eq l :
    (fix all (l : list mtype) : res (list ty * bool) :=
       match l with
       | [] => Ok ([], false)
       | x :: r => do y <- mt1 env x; do ys <- all r; Ok (fst y :: fst ys, snd y || snd ys)
       end) l = mt1_list env l.
  Proof. induction l as [|x r IH]; cbn; [reflexivity|]. destruct (mt1 env x); cbn; [|reflexivity]. rewrite IH. reflexivity. Qed.

  Lemma mt1_tuple l : mt1 env (MTuple l) = do ts <- mt1_list env l; Ok (TTuple (fst ts), snd ts).
  Proof. cbn [mt1]. rewrite mt1_all_eq. reflexivity. Qed.
  Lemma mt1_union l : mt1 env (MUnion l) = do ts <- mt1_list env l; Ok (TUnion (fst ts), snd ts).
  Proof. cbn [mt1]. rewrite mt1_all_eq. reflexivity. Qed.
  Lemma mt1_callable a r c :
    mt1 env (MCallable a r c) = do ps <- mt1_list env a; do r' <- mt1 env r; Ok (TCallable (fst ps) (fst r'), snd ps || snd r').
  Proof. cbn [mt1]. rewrite mt1_all_eq. reflexivity. Qed.

  Definition good (m : mtype) : Prop :=
    c05_dom m = true -> exists t, mt1 env m = Ok (t, false) /\ tstr nc t = ref nc m
                                  /\ is_literal t = is_mlit m /\ counts_as_named t = nullable_member m
                                  /\ (forall ts, t = TTuple ts -> exists ms, (m = MTuple ms \/ exists q, m = MInst (K"tuple") q ms))
                                  /\ (forall n q, t = TNamed n q -> str_eqb n (K"None") = true -> m = MNone)
                                  /\ (forall ms, (m = MTuple ms \/ exists q, m = MInst (K"tuple") q ms) ->
                                                 exists ts, t = TTuple ts /\ map (tstr nc) ts = map (ref nc) ms).

  Lemma dom_all l :
    (fix all (l : list mtype) : bool := match l with [] => true | x :: r => c05_dom x && all r end) l = forallb c05_dom l.
  Proof. induction l as [|x r IH]; cbn; [reflexivity|]. rewrite IH. reflexivity. Qed.

  Lemma refs_map l :
    (fix refs (l : list mtype) : list str := match l with [] => [] | x :: r => ref nc x :: refs r end) l = map (ref nc) l.
  Proof. induction l as [|x r IH]; cbn; [reflexivity|]. rewrite IH. reflexivity. Qed.

  Lemma good_list l : Forall good l -> forallb c05_dom l = true ->
    exists ts, mt1_list env l = Ok (ts, false) /\ map (tstr nc) ts = map (ref nc) l
               /\ map is_literal ts = map is_mlit l /\ map counts_as_named ts = map nullable_member l.
  Proof.
    induction 1 as [|x r Hx _ IH]; cbn; intro D.
    - exists []. repeat split; reflexivity.
    - apply andb_true_iff in D as [D1 D2]. destruct (Hx D1) as [t [E [S [Li [Na _]]]]]. destruct (IH D2) as [ts [E' [S' [Li' Na']]]].
      exists (t :: ts). rewrite E. cbn. rewrite E'. cbn. rewrite S, S', Li, Li', Na, Na'. repeat split; reflexivity.
  Qed.

  Lemma existsb_map {A B} (f : B -> bool) (g : A -> B) l : existsb f (map g l) = existsb (fun x => f (g x)) l.
  Proof. induction l; cbn; congruence. Qed.

  Lemma filter_none_literal ts l :
    map is_literal ts = map is_mlit l -> forallb (fun x => negb (is_mlit x)) l = true -> filter is_literal ts = [].
  Proof.
    revert l; induction ts as [|t ts IH]; intros [|m l] E F; cbn in *; try discriminate; [reflexivity|].
    inversion E as [[E1 E2]]. apply andb_true_iff in F as [F1 F2]. rewrite E1. destruct (is_mlit m); [discriminate|]. eauto.
  Qed.

  Lemma existsb_from_map {A B} (f : A -> bool) (g : B -> bool) (l : list A) (l' : list B) :
    map f l = map g l' -> existsb f l = existsb g l'.
  Proof. revert l'; induction l as [|x l IH]; intros [|y l'] E; cbn in *; try discriminate; [reflexivity|]. inversion E. f_equal; auto. Qed.

  (* table facts (the tables are regenerated from the source; these are re-checked on every run) *)
  Lemma basic_is_spec n : mem_str n t_mypy_basic = mem_str n (map fst spec_basic).
  Proof.
    unfold t_mypy_basic, spec_basic. cbn [map fst mem_str].
    destruct (str_eqb n (K"bool")), (str_eqb n (K"float")), (str_eqb n (K"int")), (str_eqb n (K"str")); reflexivity.
  Qed.

  Lemma str_eqb_eq a b : str_eqb a b = true -> a = b.
  Proof.
    revert b; induction a as [|x a IH]; intros [|y b] H; cbn in H; try discriminate; [reflexivity|].
    apply andb_true_iff in H as [H1 H2]. apply Ascii.eqb_eq in H1. subst. f_equal. auto.
  Qed.

  Lemma iterables_is_spec n :
    mem_str n t_mypy_iterables = mem_str n spec_list_like || str_eqb n (K"set") || str_eqb n (K"tuple").
  Proof.
    unfold t_mypy_iterables, spec_list_like. cbn [mem_str].
    destruct (str_eqb n (K"Collection")), (str_eqb n (K"Sequence")), (str_eqb n (K"list")), (str_eqb n (K"set")), (str_eqb n (K"tuple")); reflexivity.
  Qed.
  Lemma mappings_is_spec n : mem_str n t_mypy_mappings = mem_str n spec_map_like.
  Proof.
    unfold t_mypy_mappings, spec_map_like. cbn [mem_str].
    destruct (str_eqb n (K"Mapping")), (str_eqb n (K"dict")); reflexivity.
  Qed.

  (* the generator's table of builtin names: the four scalars of the specification, and None *)
  Lemma builtin_lookup n :
    lookup_pair n t_builtin_type_names =
    match lookup_pair n spec_basic with
    | Some t => Some t
    | None => if str_eqb n (K"None") then Some (K"Nothing?") else None
    end.
  Proof.
    unfold t_builtin_type_names, spec_basic. cbn [lookup_pair].
    destruct (str_eqb n (K"int")), (str_eqb n (K"str")), (str_eqb n (K"bool")), (str_eqb n (K"float")); reflexivity.
  Qed.

  Lemma basic_lookup n : mem_str n (map fst spec_basic) = true -> exists t, lookup_pair n spec_basic = Some t.
  Proof.
    unfold spec_basic. cbn [map fst mem_str lookup_pair].
    destruct (str_eqb n (K"int")); [eauto|]. destruct (str_eqb n (K"str")); [eauto|].
    destruct (str_eqb n (K"bool")); [eauto|]. destruct (str_eqb n (K"float")); [eauto|]. discriminate.
  Qed.
  Lemma nonbasic_lookup n : mem_str n (map fst spec_basic) = false -> lookup_pair n spec_basic = None.
  Proof.
    unfold spec_basic. cbn [map fst mem_str lookup_pair].
    destruct (str_eqb n (K"int")); [discriminate|]. destruct (str_eqb n (K"str")); [discriminate|].
    destruct (str_eqb n (K"bool")); [discriminate|]. destruct (str_eqb n (K"float")); [discriminate|]. reflexivity.
  Qed.

  Lemma not_reserved n c : reserved_class_name n = false -> mem_str c [K"int"; K"str"; K"bool"; K"float"; K"None"; K"list"; K"Sequence"; K"Collection"; K"dict"; K"Mapping"; K"set"; K"tuple"] = true -> str_eqb n c = false.
  Proof.
    intros R M. destruct (str_eqb n c) eqn:E; [|reflexivity]. apply str_eqb_eq in E. subst c. unfold reserved_class_name in R. congruence.
  Qed.

  Lemma excl a b n : str_eqb a b = false -> str_eqb n a = true -> str_eqb n b = false.
  Proof. intros H E. apply str_eqb_eq in E. subst. exact H. Qed.

  Lemma all_good : forall m, good m.
  Proof.
    induction m as [n q a IH | l IH | l IH | n u IH | a r c IHa IHr | t mi | | v | n a IH | b | c n | c n a IH] using mtype_ind';
      unfold good; intro D.
    - (* Instance *)
      cbn [c05_dom] in D. rewrite dom_all in D. apply andb_true_iff in D as [DQ D]. apply negb_true_iff in DQ.
      rewrite mt1_inst. rewrite basic_is_spec, iterables_is_spec, mappings_is_spec.
      cbn [ref]. rewrite refs_map.
      assert (NK : mem_str (K"NamedType") t_named_kinds = true) by reflexivity.
      destruct (mem_str n (map fst spec_basic)) eqn:EB.
      { (* scalar *)
        destruct (basic_lookup n EB) as [t Ht]. rewrite Ht.
        exists (TNamed n q). split; [reflexivity|]. split; [cbn [tstr]; rewrite builtin_lookup, Ht; reflexivity|].
        split; [reflexivity|]. split.
        { unfold counts_as_named, nullable_member. cbn [kind_name]. rewrite NK, DQ, EB. reflexivity. }
        split; [intros; discriminate|]. split.
        - intros n0 q0 E Hn. inversion E; subst. apply str_eqb_eq in Hn. subst. vm_compute in EB. discriminate.
        - intros ms [H|[q0 H]]; [discriminate H|]. inversion H; subst. vm_compute in EB. discriminate. }
      rewrite (nonbasic_lookup n EB).
      destruct (mem_str n spec_list_like) eqn:EL.
      { (* list, Sequence, Collection *)
        cbn [orb] in *. destruct (good_list a IH D) as [ts [E [S [Li Na]]]]. rewrite E. cbn [bind fst snd].
        assert (Et : str_eqb n (K"tuple") = false).
        { destruct (str_eqb n (K"tuple")) eqn:X; [|reflexivity]. apply str_eqb_eq in X. subst. vm_compute in EL. discriminate. }
        assert (Es : str_eqb n (K"set") = false).
        { destruct (str_eqb n (K"set")) eqn:X; [|reflexivity]. apply str_eqb_eq in X. subst. vm_compute in EL. discriminate. }
        rewrite Et, Es. eexists. split; [reflexivity|]. split; [cbn [tstr]; rewrite S; reflexivity|].
        split; [reflexivity|]. split.
        { unfold counts_as_named, nullable_member. cbn [kind_name]. rewrite EB, EL. reflexivity. }
        split; [intros; discriminate|]. split; [intros; discriminate|].
        intros ms [H|[q0 H]]; [discriminate H|]. inversion H; subst. vm_compute in EL. discriminate. }
      cbn [orb] in *.
      destruct (str_eqb n (K"set")) eqn:Es.
      { cbn [orb] in *. destruct (good_list a IH D) as [ts [E [S [Li Na]]]]. rewrite E. cbn [bind fst snd].
        assert (Et : str_eqb n (K"tuple") = false) by (apply (excl (K"set") (K"tuple")); [reflexivity|exact Es]).
        rewrite Et. eexists. split; [reflexivity|]. split; [cbn [tstr]; rewrite S; reflexivity|].
        split; [reflexivity|]. split.
        { unfold counts_as_named, nullable_member. cbn [kind_name]. rewrite EB, EL, Es. reflexivity. }
        split; [intros; discriminate|]. split; [intros; discriminate|].
        intros ms [H|[q0 H]]; [discriminate H|]. inversion H; subst. vm_compute in Es. discriminate. }
      cbn [orb] in *.
      destruct (str_eqb n (K"tuple")) eqn:Et.
      { destruct (good_list a IH D) as [ts [E [S [Li Na]]]]. rewrite E. cbn [bind fst snd].
        eexists. split; [reflexivity|]. split; [cbn [tstr]; rewrite S; reflexivity|].
        split; [reflexivity|]. split.
        { unfold counts_as_named, nullable_member. cbn [kind_name]. rewrite EB, EL, Es, Et. reflexivity. }
        split; [intros ts' _; exists a; right; exists q; apply str_eqb_eq in Et; subst; reflexivity|]. split; [intros; discriminate|].
        intros ms [H|[q0 H]]; [discriminate H|]. inversion H; subst. exists ts. split; [reflexivity|exact S]. }
      destruct (mem_str n spec_map_like) eqn:EM.
      { (* dict, Mapping *)
        destruct a as [|k [|v [|w a']]]; try discriminate D.
        apply andb_true_iff in D as [Dk Dv]. inversion IH as [|? ? Hk IH']; subst. inversion IH' as [|? ? Hv _]; subst.
        destruct (Hk Dk) as [tk [Ek [Sk _]]]. destruct (Hv Dv) as [tv [Ev [Sv _]]]. rewrite Ek. cbn [bind fst snd]. rewrite Ev. cbn [bind fst snd].
        eexists. split; [reflexivity|]. split; [cbn [tstr map]; rewrite Sk, Sv; reflexivity|].
        split; [reflexivity|]. split.
        { unfold counts_as_named, nullable_member. cbn [kind_name]. rewrite EB, EL, Es, Et, EM. reflexivity. }
        split; [intros; discriminate|]. split; [intros; discriminate|].
        intros ms [H|[q0 H]]; [discriminate H|]. inversion H; subst. vm_compute in Et. discriminate. }
      (* a class of the package or of a library *)
      apply andb_true_iff in D as [DR D]. apply negb_true_iff in DR.
      assert (EN : str_eqb n (K"None") = false) by (apply not_reserved; [exact DR|reflexivity]).
      destruct a as [|a0 a'].
      { exists (TNamed n q). split; [reflexivity|]. split; [cbn [tstr]; rewrite builtin_lookup, (nonbasic_lookup n EB), EN; reflexivity|].
        split; [reflexivity|]. split.
        { unfold counts_as_named, nullable_member. cbn [kind_name]. rewrite NK, DQ, EB, EL, Es, Et, EM. reflexivity. }
        split; [intros; discriminate|]. split.
        - intros n0 q0 E Hn. inversion E; subst. congruence.
        - intros ms [H|[q0 H]]; [discriminate H|]. inversion H; subst. vm_compute in Et. discriminate. }
      destruct (good_list (a0 :: a') IH D) as [ts [E [S [Li Na]]]]. rewrite E. cbn [bind fst snd].
      eexists. split; [reflexivity|]. split; [cbn [tstr]; rewrite S; reflexivity|].
      split; [reflexivity|]. split.
      { unfold counts_as_named, nullable_member. cbn [kind_name]. rewrite EB, EL, Es, Et, EM. reflexivity. }
      split; [intros; discriminate|]. split; [intros; discriminate|].
      intros ms [H|[q0 H]]; [discriminate H|]. inversion H; subst. vm_compute in Et. discriminate.
    - (* Tuple *)
      cbn [c05_dom] in D. rewrite dom_all in D. destruct (good_list l IH D) as [ts [E [S [Li Na]]]].
      rewrite mt1_tuple, E. cbn [bind fst snd]. eexists. split; [reflexivity|].
      cbn [tstr ref]. rewrite refs_map, S. repeat split; try (intros; discriminate).
      + intros ts' _. exists l. left. reflexivity.
      + intros ms [H|[q H]]; [|discriminate H]. inversion H; subst. exists ts. split; [reflexivity|exact S].
    - (* Union *)
      cbn [c05_dom] in D. rewrite dom_all in D. apply andb_true_iff in D as [D NL].
      destruct (good_list l IH D) as [ts [E [S [Li Na]]]].
      rewrite mt1_union, E. cbn [bind fst snd]. eexists. split; [reflexivity|].
      split; [|repeat split; try (intros; discriminate)].
      cbn [tstr ref]. rewrite (filter_none_literal ts l Li NL). cbn [List.length Nat.leb nonempty andb].
      rewrite andb_false_r. cbn [andb]. rewrite refs_map, S. f_equal. apply existsb_from_map. exact Na.
      intros ms [H|[q H]]; discriminate H.
    - (* TypeVar *)
      cbn [c05_dom] in D. apply andb_true_iff in D as [D1 D2]. cbn [mt1].
      change (is_object_inst_spec u) with (is_object_inst u) in D2.
      destruct (is_object_inst u) eqn:EO.
      + eexists. split; [reflexivity|]. repeat split; try (intros; discriminate).
        intros ms [H|[q H]]; discriminate H.
      + cbn in D2. destruct (IH D2) as [t [E _]]. rewrite E. cbn [bind fst snd].
        destruct (str_eqb n (K"Self")); [discriminate D1|].
        eexists. split; [reflexivity|]. repeat split; try (intros; discriminate).
        intros ms [H|[q H]]; discriminate H.
    - (* Callable *)
      cbn [c05_dom] in D. rewrite dom_all in D. apply andb_true_iff in D as [Da Dr].
      destruct (good_list a IHa Da) as [ps [Ea [Sa _]]]. destruct (IHr Dr) as [tr [Er [Sr [_ [_ [T5 [T6 T7]]]]]]].
      rewrite mt1_callable, Ea. cbn [bind fst snd]. rewrite Er. cbn [bind fst snd orb].
      eexists. split; [reflexivity|]. split; [|repeat split; try (intros; discriminate); intros ms [H|[q H]]; discriminate H].
      cbn [ref]. rewrite refs_map.
      destruct r as [rn rq ra | rl | rl | rn ru | ra rr rc | rt rm | | rv | rn ra | rb | rc rn ro].
      + (* Instance *)
        destruct (str_eqb rn (K"tuple")) eqn:Et.
        * apply str_eqb_eq in Et. subst rn. destruct (T7 ra (or_intror (ex_intro _ rq eq_refl))) as [ts [Ht Hs]]. subst tr.
          cbn [tstr]. rewrite Sa, (refs_map ra), Hs. reflexivity.
        * cbn [tstr]. rewrite Sa.
          destruct tr as [| tn tq | | | | | | | | | | | ts |]; try (rewrite Sr; reflexivity).
          -- destruct (str_eqb tn (K"None")) eqn:En; [discriminate (T6 tn tq eq_refl En)|]. rewrite Sr. reflexivity.
          -- destruct (T5 ts eq_refl) as [ms [H|[q H]]]; [discriminate H|]. inversion H; subst. vm_compute in Et. discriminate.
      + (* Tuple *)
        destruct (T7 rl (or_introl eq_refl)) as [ts [Ht Hs]]. subst tr. cbn [tstr]. rewrite Sa, (refs_map rl), Hs. reflexivity.
      + cbn [tstr]. rewrite Sa.
        destruct tr as [| tn tq | | | | | | | | | | | ts |]; try (rewrite Sr; reflexivity).
        -- destruct (str_eqb tn (K"None")) eqn:En; [discriminate (T6 tn tq eq_refl En)|]. rewrite Sr. reflexivity.
        -- destruct (T5 ts eq_refl) as [ms [H|[q H]]]; discriminate H.
      + cbn [tstr]. rewrite Sa.
        destruct tr as [| tn tq | | | | | | | | | | | ts |]; try (rewrite Sr; reflexivity).
        -- destruct (str_eqb tn (K"None")) eqn:En; [discriminate (T6 tn tq eq_refl En)|]. rewrite Sr. reflexivity.
        -- destruct (T5 ts eq_refl) as [ms [H|[q H]]]; discriminate H.
      + cbn [tstr]. rewrite Sa.
        destruct tr as [| tn tq | | | | | | | | | | | ts |]; try (rewrite Sr; reflexivity).
        -- destruct (str_eqb tn (K"None")) eqn:En; [discriminate (T6 tn tq eq_refl En)|]. rewrite Sr. reflexivity.
        -- destruct (T5 ts eq_refl) as [ms [H|[q H]]]; discriminate H.
      + cbn [tstr]. rewrite Sa.
        destruct tr as [| tn tq | | | | | | | | | | | ts |]; try (rewrite Sr; reflexivity).
        -- destruct (str_eqb tn (K"None")) eqn:En; [discriminate (T6 tn tq eq_refl En)|]. rewrite Sr. reflexivity.
        -- destruct (T5 ts eq_refl) as [ms [H|[q H]]]; discriminate H.
      + (* None *)
        cbn in Er. inversion Er; subst tr. cbn [tstr]. rewrite Sa. reflexivity.
      + cbn [tstr]. rewrite Sa.
        destruct tr as [| tn tq | | | | | | | | | | | ts |]; try (rewrite Sr; reflexivity).
        -- destruct (str_eqb tn (K"None")) eqn:En; [discriminate (T6 tn tq eq_refl En)|]. rewrite Sr. reflexivity.
        -- destruct (T5 ts eq_refl) as [ms [H|[q H]]]; discriminate H.
      + cbn in Dr. discriminate.
      + cbn in Dr. discriminate.
      + cbn in Dr. discriminate.
    - (* Any *)
      cbn [c05_dom] in D. cbn [mt1]. destruct (str_eqb t (K"from_unimported_type")); [discriminate D|].
      eexists. split; [reflexivity|]. repeat split; try (intros; discriminate).
      + intros n q E Hn. inversion E; subst. discriminate.
      + intros ms [H|[q H]]; discriminate H.
    - (* None *)
      eexists. split; [reflexivity|]. repeat split; try (intros; discriminate).
      intros ms [H|[q H]]; discriminate H.
    - (* Literal *)
      eexists. split; [reflexivity|]. repeat split; try (intros; discriminate).
      intros ms [H|[q H]]; discriminate H.
    - cbn in D. discriminate.
    - cbn in D. discriminate.
    - cbn in D. discriminate.
    - cbn in D. discriminate.
  Qed.
End E2E.

(* the statement used by Properties/C05.v *)
Theorem annotation_text : forall env nc m, c05_dom m = true ->
  exists t, mt1 env m = Ok (t, false) /\ tstr nc t = ref nc m.
Proof. intros env nc m D. destruct (all_good env nc m D) as [t [E [S _]]]. eauto. Qed.

Theorem annotation_text_generated : forall classes rmap env nc m t amb s x s',
  c05_dom m = true -> mt1 env m = Ok (t, amb) -> type_string classes rmap nc t s = Ok (x, s') -> x = ref nc m.
Proof.
  intros classes rmap env nc m t amb s x s' D E H. destruct (annotation_text env nc m D) as [t' [E' S]].
  rewrite E in E'. inversion E'; subst. rewrite <- S. eapply Proofs.BackProofs.type_string_is_tstr; eassumption.
Qed.

(* non-vacuity: dict[str, list[Optional[Engine]]] | None, Callable[[int, tuple[str, float]], None] *)
Definition example_annotation : mtype :=
  MUnion [MInst (K"dict") (K"builtins.dict")
            [MInst (K"str") (K"builtins.str") [];
             MInst (K"list") (K"builtins.list") [MUnion [MInst (K"Engine") (K"pkg.mod.Engine") []; MNone]]];
          MNone;
          MCallable [MInst (K"int") (K"builtins.int") []; MTuple [MInst (K"str") (K"builtins.str") []; MInst (K"float") (K"builtins.float") []]]
                    MNone None].
Example example_in_domain : c05_dom example_annotation = true.
Proof. reflexivity. Qed.
Example example_text :
  ref false example_annotation =
  K"union<(param_1: Int, param_2: Tuple<String, Float>) -> (), Map<String, List<Engine?>>, Nothing?>".
Proof. vm_compute. reflexivity. Qed.
