(* C19: Python equality on API types is an equivalence relation (symmetric, transitive; reflexivity is in TypesProofs). *)
From Coq Require Import List Ascii String Bool Arith ZArith Lia Permutation.
From SV Require Import Lib.Str Model.Types Proofs.TypesProofs Proofs.CounterProofs.
Import ListNotations.

(* ---------- literals ---------- *)
Lemma lit_eqb_sym a b : lit_eqb a b = lit_eqb b a.
Proof.
  destruct a, b; cbn; try reflexivity; try apply str_eqb_sym; try apply Z.eqb_sym.
  - destruct b, b0; reflexivity.
Qed.

Lemma lit_eqb_trans a b c : lit_eqb a b = true -> lit_eqb b c = true -> lit_eqb a c = true.
Proof.
  destruct a, b; cbn; try discriminate; destruct c; cbn; try discriminate; intros H1 H2;
    repeat match goal with
           | H : str_eqb _ _ = true |- _ => apply str_eqb_eq in H; subst
           | H : Z.eqb _ _ = true |- _ => apply Z.eqb_eq in H; subst
           | H : Bool.eqb _ _ = true |- _ => apply Bool.eqb_prop in H; subst
           end; try apply str_eqb_refl; try apply Z.eqb_refl; try apply bool_eqb_refl; try reflexivity.
  all: try (destruct b; destruct b0; cbn in *; try reflexivity; try discriminate).
  all: try (destruct b; cbn in *; lia).
Qed.

Lemma strset_eqb_sym a b : strset_eqb a b = strset_eqb b a.
Proof. unfold strset_eqb. apply andb_comm. Qed.

Lemma mem_str_In' x l : mem_str x l = true <-> In x l.
Proof. induction l as [|y r IH]; cbn; [easy|]. rewrite orb_true_iff, IH, str_eqb_eq. split; intros [H|H]; auto. Qed.

Lemma strset_eqb_trans a b c : strset_eqb a b = true -> strset_eqb b c = true -> strset_eqb a c = true.
Proof.
  unfold strset_eqb. rewrite !andb_true_iff, !forallb_forall. intros [H1 H2] [H3 H4]. split; intros x Hx.
  - apply mem_str_In'. apply mem_str_In', H3, mem_str_In', H1, Hx.
  - apply mem_str_In'. apply mem_str_In', H2, mem_str_In', H4, Hx.
Qed.

(* ---------- boundary types ---------- *)
Definition INF : lit := LStr (K"Infinity").

Lemma lit_eqb_congr_r a b c : lit_eqb a b = true -> lit_eqb a c = lit_eqb b c.
Proof.
  intro H. destruct (lit_eqb a c) eqn:E1.
  - symmetry. apply (lit_eqb_trans b a c); [now rewrite lit_eqb_sym|exact E1].
  - destruct (lit_eqb b c) eqn:E2; [|reflexivity]. rewrite <- E1. apply (lit_eqb_trans a b c); assumption.
Qed.

Lemma bool_eqb_sym a b : Bool.eqb a b = Bool.eqb b a.
Proof. destruct a, b; reflexivity. Qed.

Lemma boundary_eq_sym b mn mx i1 i2 b' mn' mx' i1' i2' :
  py_eq (TBoundary b mn mx i1 i2) (TBoundary b' mn' mx' i1' i2') = py_eq (TBoundary b' mn' mx' i1' i2') (TBoundary b mn mx i1 i2).
Proof.
  cbn [py_eq]. rewrite (str_eqb_sym b' b), (lit_eqb_sym mn' mn), (bool_eqb_sym i1' i1), (lit_eqb_sym mx' mx), (bool_eqb_sym i2' i2).
  destruct (str_eqb b b' && lit_eqb mn mn' && Bool.eqb i1 i1' && lit_eqb mx mx') eqn:E; [|reflexivity].
  apply andb_true_iff in E as [_ E]. now rewrite (lit_eqb_congr_r mx mx' (LStr (K"Infinity")) E).
Qed.

Lemma boundary_eq_trans b mn mx i1 i2 b' mn' mx' i1' i2' b'' mn'' mx'' i1'' i2'' :
  py_eq (TBoundary b mn mx i1 i2) (TBoundary b' mn' mx' i1' i2') = true ->
  py_eq (TBoundary b' mn' mx' i1' i2') (TBoundary b'' mn'' mx'' i1'' i2'') = true ->
  py_eq (TBoundary b mn mx i1 i2) (TBoundary b'' mn'' mx'' i1'' i2'') = true.
Proof.
  cbn [py_eq].
  destruct (str_eqb b b' && lit_eqb mn mn' && Bool.eqb i1 i1' && lit_eqb mx mx') eqn:E1; [|discriminate].
  destruct (str_eqb b' b'' && lit_eqb mn' mn'' && Bool.eqb i1' i1'' && lit_eqb mx' mx'') eqn:E2; [|discriminate].
  repeat (apply andb_true_iff in E1 as [E1 ?]). repeat (apply andb_true_iff in E2 as [E2 ?]).
  repeat match goal with
         | H : str_eqb _ _ = true |- _ => apply str_eqb_eq in H; subst
         | H : Bool.eqb _ _ = true |- _ => apply Bool.eqb_prop in H; subst
         end.
  rewrite str_eqb_refl, bool_eqb_refl, (lit_eqb_trans mn mn' mn''), (lit_eqb_trans mx mx' mx'') by assumption. cbn [andb].
  rewrite (lit_eqb_congr_r mx mx' (LStr (K"Infinity"))) by assumption.
  destruct (lit_eqb mx' (LStr (K"Infinity"))) eqn:Ei; [reflexivity|].
  intros Ha Hb. apply Bool.eqb_prop in Ha, Hb. subst. apply bool_eqb_refl.
Qed.

(* ---------- depth bounds of children ---------- *)
Lemma depth_children n ts : depth_list ts <= n -> Forall (fun t => depth t <= n) ts.
Proof. intro H. apply Forall_forall. intros t Ht. pose proof (depth_in _ _ Ht). lia. Qed.

Lemma depth_pos t : 1 <= depth t.
Proof. destruct t; cbn; lia. Qed.

Definition equiv_upto (n : nat) : Prop :=
  forall a b c, depth a <= n -> depth b <= n -> depth c <= n ->
    py_eq a b = py_eq b a /\ (py_eq a b = true -> py_eq b c = true -> py_eq a c = true).

Ltac bound_children :=
  repeat match goal with
         | H : depth (_ _) <= S _ |- _ => cbn [depth] in H; fold depth_list in H
         | H : depth (_ _ _) <= S _ |- _ => cbn [depth] in H; fold depth_list in H
         | H : depth (_ _ _ _) <= S _ |- _ => cbn [depth] in H; fold depth_list in H
         end.

Lemma smax_l x y n : S (Nat.max x y) <= S n -> x <= n.
Proof. intro H. apply le_S_n in H. etransitivity; [apply Nat.le_max_l|exact H]. Qed.
Lemma smax_r x y n : S (Nat.max x y) <= S n -> y <= n.
Proof. intro H. apply le_S_n in H. etransitivity; [apply Nat.le_max_r|exact H]. Qed.

(* what the depth bound of a value says about its children *)
Definition kids_bounded (n : nat) (t : ty) : Prop :=
  match t with
  | TNamedSeq _ _ ts | TUnion ts | TList ts | TSet ts | TTuple ts => Forall (fun x => depth x <= n) ts
  | TDict k v => depth k <= n /\ depth v <= n
  | TCallable ps r => Forall (fun x => depth x <= n) ps /\ depth r <= n
  | TFinal t' => depth t' <= n
  | TTypeVar _ (Some u) => depth u <= n
  | _ => True
  end.

Lemma kids_of_bound n t : depth t <= S n -> kids_bounded n t.
Proof.
  destruct t; cbn [depth kids_bounded]; intro H; auto; fold depth_list in *.
  1-3,6,8: apply depth_children; now apply le_S_n.
  - split; [eapply smax_l; exact H|eapply smax_r; exact H].
  - split; [apply depth_children; eapply smax_l; exact H|eapply smax_r; exact H].
  - now apply le_S_n.
  - destruct ub; [now apply le_S_n|exact I].
Qed.

Lemma equiv_step n : equiv_upto n -> equiv_upto (S n).
Proof.
  intros IH a b c Ha Hb Hc.
  apply kids_of_bound in Ha, Hb, Hc.
  set (D := fun t => depth t <= n) in *.
  assert (e_refl : forall x, D x -> py_eq x x = true) by (intros; apply py_eq_refl).
  assert (e_sym : forall x y, D x -> D y -> py_eq x y = py_eq y x) by (intros x y Dx Dy; exact (proj1 (IH x y y Dx Dy Dy))).
  assert (e_trans : forall x y z, D x -> D y -> D z -> py_eq x y = true -> py_eq y z = true -> py_eq x z = true)
    by (intros x y z Dx Dy Dz; exact (proj2 (IH x y z Dx Dy Dz))).
  assert (csym : forall l l', Forall D l -> Forall D l' -> counter_eqb py_eq l l' = counter_eqb py_eq l' l)
    by (intros; now apply (counter_eqb_sym py_eq D)).
  assert (ctrans : forall l l' l'', Forall D l -> Forall D l' -> Forall D l'' ->
             counter_eqb py_eq l l' = true -> counter_eqb py_eq l' l'' = true -> counter_eqb py_eq l l'' = true)
    by (intros l l' l'' ? ? ?; now apply (counter_eqb_trans py_eq D e_refl e_sym e_trans)).
  assert (lsym : forall l l', counter_eqb lit_eqb l l' = counter_eqb lit_eqb l' l).
  { intros l l'. apply (counter_eqb_sym lit_eqb (fun _ => True)); intros; auto using lit_eqb_refl, lit_eqb_sym;
      try (eapply lit_eqb_trans; eassumption); apply Forall_forall; auto. }
  assert (ltrans : forall l l' l'', counter_eqb lit_eqb l l' = true -> counter_eqb lit_eqb l' l'' = true -> counter_eqb lit_eqb l l'' = true).
  { intros l l' l''. apply (counter_eqb_trans lit_eqb (fun _ => True)); intros; auto using lit_eqb_refl, lit_eqb_sym;
      try (eapply lit_eqb_trans; eassumption); apply Forall_forall; auto. }
  split.
  - (* symmetry *)
    destruct a, b; cbn [py_eq]; try reflexivity; cbn [kids_bounded] in *.
    + now rewrite (str_eqb_sym name name0), (str_eqb_sym qname qname0).
    + rewrite (str_eqb_sym name name0), (str_eqb_sym qname qname0), csym by assumption. reflexivity.
    + apply strset_eqb_sym.
    + apply boundary_eq_sym.
    + now apply csym.
    + now apply csym.
    + destruct Ha, Hb. rewrite (e_sym a1 b1), (e_sym a2 b2) by assumption. reflexivity.
    + destruct Ha, Hb. rewrite csym by assumption. rewrite (e_sym a b) by assumption. reflexivity.
    + now apply csym.
    + apply lsym.
    + now apply e_sym.
    + now apply csym.
    + rewrite (str_eqb_sym name name0). destruct ub, ub0; try reflexivity. f_equal. now apply e_sym.
  - (* transitivity *)
    destruct a, b; cbn [py_eq]; try discriminate; destruct c; cbn [py_eq]; try discriminate; cbn [kids_bounded] in *; intros H1 H2.
    + reflexivity.
    + apply andb_true_iff in H1 as [A1 A2], H2 as [B1 B2].
      apply str_eqb_eq in A1, A2, B1, B2. subst. now rewrite !str_eqb_refl.
    + apply andb_true_iff in H1 as [H1 Aq]. apply andb_true_iff in H1 as [Ac An].
      apply andb_true_iff in H2 as [H2 Bq]. apply andb_true_iff in H2 as [Bc Bn].
      apply str_eqb_eq in Aq, An, Bq, Bn. subst.
      rewrite !str_eqb_refl, (ctrans ts ts0 ts1) by assumption. reflexivity.
    + eapply strset_eqb_trans; eassumption.
    + eapply boundary_eq_trans; [exact H1|exact H2].
    + now apply (ctrans ts ts0 ts1).
    + now apply (ctrans ts ts0 ts1).
    + destruct Ha, Hb, Hc. apply andb_true_iff in H1 as [A1 A2], H2 as [B1 B2].
      rewrite (e_trans a1 b1 c1), (e_trans a2 b2 c2) by assumption. reflexivity.
    + destruct Ha, Hb, Hc. apply andb_true_iff in H1 as [A1 A2], H2 as [B1 B2].
      rewrite (ctrans ps ps0 ps1), (e_trans a b c) by assumption. reflexivity.
    + now apply (ctrans ts ts0 ts1).
    + now apply (ltrans ls ls0 ls1).
    + now apply (e_trans a b c).
    + now apply (ctrans ts ts0 ts1).
    + apply andb_true_iff in H1 as [A1 A2], H2 as [B1 B2]. apply str_eqb_eq in A1, B1. subst. rewrite str_eqb_refl. cbn.
      destruct ub, ub0; try discriminate; destruct ub1; try discriminate; try reflexivity. now apply (e_trans t t0 t1).
Qed.

Lemma equiv_all : forall n, equiv_upto n.
Proof.
  induction n as [|n IH]; [|now apply equiv_step].
  intros a b c Ha. pose proof (depth_pos a). lia.
Qed.

Theorem py_eq_sym a b : py_eq a b = py_eq b a.
Proof.
  pose (n := Nat.max (depth a) (depth b)).
  exact (proj1 (equiv_all n a b b (Nat.le_max_l _ _) (Nat.le_max_r _ _) (Nat.le_max_r _ _))).
Qed.

Theorem py_eq_trans a b c : py_eq a b = true -> py_eq b c = true -> py_eq a c = true.
Proof.
  pose (n := Nat.max (depth a) (Nat.max (depth b) (depth c))).
  apply (proj2 (equiv_all n a b c (Nat.le_max_l _ _)
                          (Nat.le_trans _ _ _ (Nat.le_max_l _ _) (Nat.le_max_r _ _))
                          (Nat.le_trans _ _ _ (Nat.le_max_r _ _) (Nat.le_max_r _ _)))).
Qed.
