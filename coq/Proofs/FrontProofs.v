(* Lemmas about the analyzer model (Model/Front.v). *)
From Coq Require Import List Ascii String Bool Arith ZArith Lia Permutation.
From SV Require Import Lib.Str Gen.Tables Model.Types Model.Naming Model.Api Model.FrontSmall Model.View Model.Front
     Proofs.FrontSmallProofs.
Import ListNotations.

(* ======================================================================================================== *)
(* alias table: an entry that repeats an earlier entry changes nothing (the dumper drops such entries)        *)
(* ======================================================================================================== *)
Fixpoint alias_has (n f : str) (a : aliases) : bool :=
  match a with
  | [] => false
  | (k, qs) :: r => if str_eqb k n then mem_str f qs else alias_has n f r
  end.

Lemma str_eqb_refl s : str_eqb s s = true.
Proof. induction s as [|c s IH]; cbn; [reflexivity|]. rewrite Ascii.eqb_refl. exact IH. Qed.

Lemma str_eqb_eq a b : str_eqb a b = true -> a = b.
Proof.
  revert b; induction a as [|x a IH]; intros [|y b] H; cbn in H; try discriminate; [reflexivity|].
  apply andb_true_iff in H as [H1 H2]. apply Ascii.eqb_eq in H1. subst. f_equal. auto.
Qed.

Lemma mem_str_app_r x l y : mem_str x l = true -> mem_str x (l ++ [y]) = true.
Proof. induction l as [|z l IH]; cbn; [discriminate|]. intro H. apply orb_true_iff in H as [H|H]; [rewrite H; reflexivity|]. rewrite (IH H). apply orb_true_r. Qed.

Lemma mem_str_app_new x l : mem_str x (l ++ [x]) = true.
Proof. induction l as [|z l IH]; cbn; [rewrite str_eqb_refl; reflexivity|]. rewrite IH. apply orb_true_r. Qed.

Lemma alias_add_has n f a : alias_has n f (alias_add n f a) = true.
Proof.
  induction a as [|[k qs] r IH]; cbn.
  - rewrite str_eqb_refl. cbn. rewrite str_eqb_refl. reflexivity.
  - destruct (str_eqb k n) eqn:E; cbn; rewrite E.
    + destruct (mem_str f qs) eqn:M; [exact M|apply mem_str_app_new].
    + exact IH.
Qed.

Lemma alias_add_keeps n f n' f' a : alias_has n f a = true -> alias_has n f (alias_add n' f' a) = true.
Proof.
  induction a as [|[k qs] r IH]; cbn; [discriminate|].
  destruct (str_eqb k n) eqn:E; intro H.
  - destruct (str_eqb k n') eqn:E'; cbn; rewrite E; [|exact H].
    destruct (mem_str f' qs); [exact H|apply mem_str_app_r; exact H].
  - destruct (str_eqb k n') eqn:E'; cbn; rewrite E; [exact H|auto].
Qed.

Lemma alias_add_idem n f a : alias_has n f a = true -> alias_add n f a = a.
Proof.
  induction a as [|[k qs] r IH]; cbn; [discriminate|].
  destruct (str_eqb k n) eqn:E; intro H.
  - rewrite H. reflexivity.
  - rewrite (IH H). reflexivity.
Qed.

(* what one entry does depends on the table only through one alias_add *)
Inductive step_effect := SErr (e : err) | SSkip | SAdd (n f : str).
Definition effect_of (package : str) (e : aentry) : step_effect :=
  match alias_step package e [] with
  | Err x => SErr x
  | Ok [] => SSkip
  | Ok ((n, [f]) :: _) => SAdd n f
  | Ok _ => SSkip
  end.

Lemma alias_step_effect package e a :
  alias_step package e a =
  match effect_of package e with SErr x => Err x | SSkip => Ok a | SAdd n f => Ok (alias_add n f a) end.
Proof.
  unfold effect_of, alias_step.
  destruct (ae_kind e), (ae_tinfo e) as [[tn tf]|], (ae_name e), (ae_fullname e), (ae_node e), (ae_tv e) as [b1 b2 [o|]| |];
    cbn; repeat (match goal with |- context [if ?b then _ else _] => destruct b end; cbn); try reflexivity;
    repeat (match goal with |- context [match ?x with _ => _ end] => destruct x; cbn end); try reflexivity.
Qed.

Lemma get_aliases_app package es1 es2 a :
  get_aliases package (es1 ++ es2) a = match get_aliases package es1 a with Ok a' => get_aliases package es2 a' | Err x => Err x end.
Proof.
  revert a; induction es1 as [|e r IH]; intro a; cbn; [reflexivity|].
  destruct (alias_step package e a); cbn; [apply IH|reflexivity].
Qed.

Lemma get_aliases_keeps package n f es : forall a a', alias_has n f a = true -> get_aliases package es a = Ok a' -> alias_has n f a' = true.
Proof.
  induction es as [|e r IH]; intros a a' H; cbn.
  - intro E; inversion E; subst; exact H.
  - rewrite alias_step_effect. destruct (effect_of package e); cbn; [discriminate| |]; intro E.
    + eapply IH; eauto.
    + eapply IH; [|exact E]. apply alias_add_keeps; exact H.
Qed.

Theorem alias_later_duplicate_irrelevant package e es1 es2 es3 a :
  get_aliases package (es1 ++ e :: es2 ++ e :: es3) a = get_aliases package (es1 ++ e :: es2 ++ es3) a.
Proof.
  rewrite !get_aliases_app. destruct (get_aliases package es1 a) as [a1|]; [|reflexivity].
  cbn. rewrite (alias_step_effect package e a1).
  destruct (effect_of package e) eqn:EF; cbn; [reflexivity| |].
  - rewrite !get_aliases_app. destruct (get_aliases package es2 a1) as [a2|]; [|reflexivity].
    cbn. rewrite (alias_step_effect package e a2), EF. reflexivity.
  - rewrite !get_aliases_app. destruct (get_aliases package es2 (alias_add n f a1)) as [a2|] eqn:G; [|reflexivity].
    cbn. rewrite (alias_step_effect package e a2), EF. cbn.
    rewrite alias_add_idem; [reflexivity|]. eapply get_aliases_keeps; [|exact G]. apply alias_add_has.
Qed.

(* ======================================================================================================== *)
(* C06: one parameter                                                                                         *)
(* ======================================================================================================== *)
(* the literal default values of the statement: int, float, str, bool, None, signed numbers *)
Definition plain_literal (e : expr) : option pyval :=
  match e with
  | EInt z => Some (Some (DInt z))
  | EFloat r => Some (Some (DFloat r))
  | EStr s => Some (Some (DStr (quote_str s)))
  | EName n _ _ => if str_eqb n (K"None") then Some None
                   else if str_eqb n (K"True") then Some (Some (DBool true))
                   else if str_eqb n (K"False") then Some (Some (DBool false)) else None
  | _ => None
  end.
Definition signed_literal (e : expr) : option pyval :=
  match e with
  | EUnary op (EInt z) =>
    if (0 <=? z)%Z then (if str_eqb op (K"-") then Some (Some (DInt (- z))) else if str_eqb op (K"+") then Some (Some (DInt z)) else None) else None
  | EUnary op (EFloat r) =>
    if negb (starts_with (K"-") r) then (if str_eqb op (K"-") then Some (Some (DFloat ("-"%char :: r)))
                                         else if str_eqb op (K"+") then Some (Some (DFloat r)) else None) else None
  | _ => plain_literal e
  end.

Theorem default_of_literal fid e v : signed_literal e = Some v ->
  default_of fid e = (v, match v with None => true | Some _ => false end, []).
Proof.
  destruct e as [n f nd|n f nd|z|r|s|items|op x| |a b|c items|c nm]; cbn [signed_literal plain_literal]; try discriminate.
  - cbn [default_of]. destruct (str_eqb n (K"None")); [intro H; inversion H; reflexivity|].
    destruct (str_eqb n (K"True")); [intro H; inversion H; reflexivity|].
    destruct (str_eqb n (K"False")); [intro H; inversion H; reflexivity|discriminate].
  - intro H; inversion H; reflexivity.
  - intro H; inversion H; reflexivity.
  - intro H; inversion H; reflexivity.
  - destruct x as [n f nd|n f nd|z|r|s|items|op' x'| |a b|c items|c nm]; cbn [plain_literal]; try discriminate.
    + cbn [default_of]. unfold unary_int.
      destruct (0 <=? z)%Z eqn:Z0; [|discriminate]. assert ((z <? 0)%Z = false) as -> by lia.
      destruct (str_eqb op (K"-")); [intro H; inversion H; reflexivity|].
      destruct (str_eqb op (K"+")); [intro H; inversion H; reflexivity|discriminate].
    + cbn [default_of]. unfold unary_float. destruct (starts_with (K"-") r); cbn [negb]; [discriminate|].
      destruct (str_eqb op (K"-")); [intro H; inversion H; reflexivity|].
      destruct (str_eqb op (K"+")); [intro H; inversion H; reflexivity|discriminate].
Qed.

Theorem parse_parameter_shape env d st f fid a p tv lg amb :
  parse_parameter env d st f fid a = Ok (p, tv, lg, amb) ->
  p_name p = ar_name a /\ p_id p = fid ++ K"/" ++ ar_name a /\
  p_assigned p = spec_kind (ar_is_self a || ar_is_cls a) (ar_pos_only a) (ar_kind a) /\
  (p_optional p = true <-> exists e, ar_init a = Some e /\ (fst (fst (default_of fid e)) <> None \/ snd (fst (default_of fid e)) = true)) /\
  (forall e v, ar_init a = Some e -> signed_literal e = Some v -> p_default p = dval_of_pyval v).
Proof.
  unfold parse_parameter. destruct (ar_vtype a) as [vt|]; [|discriminate].
  match goal with |- (do at_ <- ?X; _) = _ -> _ => destruct X as [[at0 amb0]|]; cbn [bind]; [|discriminate] end.
  destruct (ar_init a) as [e|] eqn:EI.
  - destruct (default_of fid e) as [[v isnone] lg0] eqn:ED.
    rewrite kind_table. cbn [bind].
    match goal with |- (do dv <- ?X; _) = _ -> _ => destruct X as [[[[v1 n1] l1] t1]|] eqn:EX; cbn [bind]; [|discriminate] end.
    assert (v1 = v /\ n1 = isnone) as [-> ->].
    { destruct at0; [inversion EX; auto|]. destruct (isnone || match v with Some _ => true | None => false end); [|inversion EX; auto].
      destruct (expr_type e); cbn [bind] in EX; [inversion EX; auto|discriminate]. }
    match goal with |- (do pd <- ?X; _) = _ -> _ => destruct X as [pd|]; cbn [bind]; [|discriminate] end.
    intro H. inversion H; subst. cbn. repeat split; try reflexivity.
    + intro O. exists e. split; [reflexivity|]. rewrite ED. cbn. destruct v as [dv|]; [left; discriminate|right; exact O].
    + intros [e' [E1 E2]]. inversion E1; subst e'. rewrite ED in E2. cbn in E2. destruct E2 as [E2|E2].
      * destruct v; [reflexivity|congruence].
      * rewrite E2. apply orb_true_r.
    + intros e' v' E1 SL. inversion E1; subst e'. rewrite (default_of_literal fid e v' SL) in ED. inversion ED; subst. reflexivity.
  - rewrite kind_table. cbn [bind].
    match goal with |- (do pd <- ?X; _) = _ -> _ => destruct X as [pd|]; cbn [bind]; [|discriminate] end.
    intro H. inversion H; subst. cbn. repeat split; try reflexivity.
    + discriminate.
    + intros [e' [E1 _]]; discriminate.
    + intros; discriminate.
Qed.

(* ======================================================================================================== *)
(* C04: the publicity flag                                                                                    *)
(* ======================================================================================================== *)
(* without a re-export that covers it, a name with a leading underscore that is not a dunder name is private *)
Theorem private_name_not_public st name qname parent rest :
  vs_stack st = parent :: rest ->
  check_publicity_in_reexports st name qname parent = false ->
  is_internal name = true -> ends_with (K"__") name = false ->
  forall b, is_public st name qname = Ok b -> b = false.
Proof.
  intros S R I D b. unfold is_public. rewrite S.
  destruct parent; cbv beta iota zeta; cbn [negb]; try discriminate.
  - rewrite R, I, D. cbn [negb andb]. intro H; inversion H; reflexivity.
  - rewrite R, I, D. cbn [negb andb]. intro H; inversion H; reflexivity.
  - destruct (str_eqb (f_name f) (K"__init__")); cbn [negb]; [|discriminate]. rewrite I, D. cbn [negb andb]. intro H; inversion H; reflexivity.
Qed.

(* a member of a class that is not public is not public (unless a re-export names it) *)
Theorem member_of_private_class_not_public st name qname c rest :
  vs_stack st = FClass c :: rest -> c_public c = false ->
  check_publicity_in_reexports st name qname (FClass c) = false ->
  (str_eqb name (K"__init__") = true \/ is_internal name = false) ->
  forall b, is_public st name qname = Ok b -> b = false.
Proof.
  intros S P R N b. unfold is_public. rewrite S. cbv beta iota zeta. cbn [negb]. rewrite R.
  destruct (is_internal name && negb (ends_with (K"__") name)); [intro H; inversion H; reflexivity|].
  destruct N as [N|N]; rewrite N; cbn [negb orb]; [|rewrite orb_true_r]; intro H; inversion H; congruence.
Qed.

(* a public name at module level is public exactly when no segment of its module path is private (re-exports aside) *)
Theorem module_level_publicity st name qname m rest :
  vs_stack st = FModule m :: rest -> is_internal name = false ->
  check_publicity_in_reexports st name qname (FModule m) = false ->
  is_public st name qname = Ok (forallb (fun it => negb (is_internal it)) (removelast (split_dot qname))).
Proof. intros S I R. unfold is_public. rewrite S. cbv beta iota zeta. cbn [negb]. rewrite R, I. reflexivity. Qed.

(* and a re-export can only make a declaration public, never private *)
Theorem reexport_only_publishes st name qname parent rest :
  vs_stack st = parent :: rest -> check_publicity_in_reexports st name qname parent = true ->
  match parent with FModule _ | FClass _ => is_public st name qname = Ok true | _ => True end.
Proof. intros S R. destruct parent; try exact I; unfold is_public; rewrite S; cbv beta iota zeta; cbn [negb]; rewrite R; reflexivity. Qed.

(* ======================================================================================================== *)
(* C07: results of an annotated function                                                                      *)
(* ======================================================================================================== *)
Arguments gen_name : simpl never.
Arguments pick_name : simpl never.
Lemma zip_results_types fid ts : forall ds k, List.length ts = List.length ds -> map r_type (zip_results fid ts ds k) = map Some ts.
Proof.
  induction ts as [|t tr IH]; intros [|d dr] k L; cbn [List.length zip_results map] in *; try discriminate; [reflexivity|].
  destruct (pick_name (Some d) k) as [nm k']. cbn [map r_type mk_result]. f_equal. apply IH. lia.
Qed.
Lemma match_results_types fid ds ts : forall k, map r_type (match_results fid ts ds k) = map Some ts.
Proof. induction ts as [|t tr IH]; intro k; cbn [match_results map]; [reflexivity|]. destruct (pick_name _ k) as [nm k']. cbn [map r_type mk_result]. f_equal. apply IH. Qed.
Lemma zip_results_ids fid ts : forall ds k, Forall (fun r => r_id r = fid ++ K"/" ++ r_name r) (zip_results fid ts ds k).
Proof.
  induction ts as [|t tr IH]; intros [|d dr] k; cbn [zip_results]; try constructor.
  destruct (pick_name (Some d) k) as [nm k']. constructor; [reflexivity|apply IH].
Qed.
Lemma match_results_ids fid ds ts : forall k, Forall (fun r => r_id r = fid ++ K"/" ++ r_name r) (match_results fid ts ds k).
Proof. induction ts as [|t tr IH]; intro k; cbn [match_results]; [constructor|]. destruct (pick_name _ k) as [nm k']. constructor; [reflexivity|apply IH]. Qed.

Definition annotated (f : fdef) : option (mtype * option mtype) :=
  match fn_type f with
  | Some (FRet rt u) =>
    match rt with
    | MAny toa _ => if uret_allows_inference u && negb (any_ok toa) then None else Some (rt, u)
    | _ => Some (rt, u)
    end
  | _ => None
  end.

(* "-> None": one result of type None (the generator then writes no result at all: Properties/C07.v);
   an annotated tuple: one result per element, in order; anything else: exactly one result carrying the translated type *)
Theorem annotated_results env f fid rdocs rt u rs amb :
  str_eqb (fn_name f) (K"__init__") = false -> annotated f = Some (rt, u) ->
  parse_results env f fid rdocs = Ok (rs, amb) ->
  exists t a, (match rt with MNone => Ok (none_named, false) | _ => mt2 env rt u end) = Ok (t, a) /\
              map r_type rs = map Some (match t with TTuple ts => ts | _ => [t] end) /\
              Forall (fun r => r_id r = fid ++ K"/" ++ r_name r) rs.
Proof.
  intros NI A. unfold parse_results. rewrite NI. unfold annotated in A.
  destruct (fn_type f) as [[|rt0 u0]|]; try discriminate.
  assert (forall (X : res (ty * bool)),
    (do ri <- (do t <- X; Ok (Some (fst t), false, snd t));
     let '(ret, inferred, amb0) := ri in
     match ret with
     | None => Ok ([], amb0)
     | Some rt1 =>
       match inferred, rt1 with
       | true, TTuple ts => do rs0 <- create_inferred_results fid ts rdocs; Ok (rs0, amb0)
       | _, _ => let rets := match rt1 with TTuple ts => ts | _ => [rt1] end in
                 if Nat.eqb (List.length rets) (List.length rdocs) then Ok (zip_results fid rets rdocs 0, amb0)
                 else Ok (match_results fid rets rdocs 0, amb0)
       end
     end) = Ok (rs, amb) ->
    exists t a, X = Ok (t, a) /\ map r_type rs = map Some (match t with TTuple ts => ts | _ => [t] end) /\
                Forall (fun r => r_id r = fid ++ K"/" ++ r_name r) rs) as GEN.
  { intros [[t a]|e]; cbn [bind fst snd]; [|discriminate]. intro H. exists t, a. split; [reflexivity|].
    destruct (Nat.eqb _ _) eqn:EL; inversion H; subst.
    - split; [apply zip_results_types; apply Nat.eqb_eq; exact EL|apply zip_results_ids].
    - split; [apply match_results_types|apply match_results_ids]. }
  destruct rt0; try (inversion A; subst; apply GEN).
  - (* Any *) destruct (uret_allows_inference u0 && negb (any_ok toa)); [discriminate|]. inversion A; subst. apply GEN.
  - (* None *) inversion A; subst. apply (GEN (Ok (none_named, false))).
Qed.

(* ======================================================================================================== *)
(* C13: the documentation attached to a declaration is the docstring parser's answer for that declaration's own   *)
(* qualified name - whatever was analysed before (the answer table is not part of the walk's state)               *)
(* ======================================================================================================== *)
Theorem class_doc_by_own_name al d st c st' w :
  enter_class al d st c = Ok (st', w) ->
  exists cl rest, vs_stack st' = FClass cl :: rest /\ doc_class d (cd_fullname c) = Ok (c_doc cl).
Proof.
  unfold enter_class. destruct (doc_class d (cd_fullname c)) as [doc|] eqn:ED; cbn [bind]; [|discriminate].
  destruct (tenv_of al st); cbn [bind]; [|discriminate]. destruct (type_parameters _ c); cbn [bind]; [|discriminate].
  destruct (superclasses _ c) as [[sups exc] amb]. destruct (ctor_fulldoc d c); cbn [bind]; [|discriminate].
  destruct (is_public st (cd_name c) (cd_fullname c)); cbn [bind]; [|discriminate].
  intro H. inversion H; subst. eexists. eexists. split; reflexivity.
Qed.

Theorem function_doc_by_own_name al d pref warn st f st' w :
  enter_func al d pref warn st f = Ok (st', w) ->
  exists fn rest, vs_stack st' = FFunc fn :: rest /\ doc_func d (fn_fullname f) = Ok (f_doc fn) /\
                  doc_results d (fn_fullname f) = Ok (f_rdocs fn).
Proof.
  unfold enter_func. destruct (is_public st (fn_name f) (fn_fullname f)); cbn [bind]; [|discriminate].
  destruct (doc_func d (fn_fullname f)) as [doc|] eqn:ED; cbn [bind]; [|discriminate].
  destruct (tenv_of al st); cbn [bind]; [|discriminate].
  match goal with |- context [bind ?X _] => destruct X as [ps|]; cbn [bind]; [|discriminate] end.
  destruct (doc_results d (fn_fullname f)) as [rdocs|] eqn:ER; cbn [bind]; [|discriminate].
  match goal with |- context [bind ?X _] => destruct X as [[rc ramb]|]; cbn [bind]; [|discriminate] end.
  destruct (reconcile_results _ _ _ _ _) as [r n].
  intro H. inversion H; subst. eexists. eexists. split; [reflexivity|]. split; reflexivity.
Qed.

Theorem parameter_doc_by_own_name env d st f fid a p tv lg amb :
  parse_parameter env d st f fid a = Ok (p, tv, lg, amb) ->
  exists pd cq, doc_param d (fn_fullname f) (ar_name a) cq = Ok pd /\
                p_doc_type p = pd_type pd /\ p_doc_default p = pd_default pd /\ p_doc_desc p = pd_desc pd.
Proof.
  unfold parse_parameter. destruct (ar_vtype a) as [vt|]; [|discriminate].
  match goal with |- (do at_ <- ?X; _) = _ -> _ => destruct X as [[at0 amb0]|]; cbn [bind]; [|discriminate] end.
  match goal with |- (do dv <- ?X; _) = _ -> _ => destruct X as [[[[v1 n1] l1] t1]|]; cbn [bind]; [|discriminate] end.
  rewrite kind_table. cbn [bind].
  match goal with |- (do pd <- doc_param d _ _ ?CQ; _) = _ -> _ => destruct (doc_param d (fn_fullname f) (ar_name a) CQ) as [pd|] eqn:EP; cbn [bind]; [|discriminate] end.
  intro H. inversion H; subst. eexists. eexists. split; [exact EP|]. cbn. auto.
Qed.

(* ======================================================================================================== *)
(* C11 / C08: the re-exported-by list of a declaration is sorted by module id and free of duplicates              *)
(* ======================================================================================================== *)
Lemma nodup_by_nodup {T} (key : T -> str) (l : list T) :
  NoDup (map key (nodup_by (fun a b => str_eqb (key a) (key b)) l)).
Proof.
  induction l as [|x r IH]; cbn; [constructor|]. constructor.
  - intro C. apply in_map_iff in C. destruct C as [y [E Hin]]. apply filter_In in Hin as [_ Hf].
    rewrite <- E, str_eqb_refl in Hf. discriminate.
  - clear -IH. induction (nodup_by _ r) as [|y ys IHy]; cbn; [constructor|]. inversion IH; subst.
    destruct (negb (str_eqb (key x) (key y))); cbn; [constructor; auto|auto].
    intro C. apply H1. apply in_map_iff in C. destruct C as [z [E Hz]]. apply filter_In in Hz as [Hz _]. apply in_map_iff. eauto.
Qed.

Theorem reexported_by_sorted_nodup rm qname :
  Sorting.Sorted.Sorted (fun a b => str_leb (rm_id a) (rm_id b) = true) (get_reexported_by rm qname) /\
  NoDup (map rm_id (get_reexported_by rm qname)).
Proof.
  unfold get_reexported_by, sort_by_key. split.
  - apply (Proofs.SortProofs.isort_sorted (fun a b => str_leb (rm_id a) (rm_id b))). intros a b. apply Proofs.SortProofs.str_leb_total.
  - eapply Permutation_NoDup; [apply Permutation_map, Permutation_sym, Proofs.SortProofs.isort_perm|apply nodup_by_nodup].
Qed.
