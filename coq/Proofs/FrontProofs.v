(* Lemmas about the analyzer model (Model/Front.v). *)
From Coq Require Import List Ascii String Bool Arith ZArith Lia Permutation.
From SV Require Import Lib.Str Gen.Tables Model.Types Model.Naming Model.Api Model.FrontSmall Model.View Model.Front
     Proofs.FrontSmallProofs.
Import ListNotations.

(* ======================================================================================================== *)
(* alias table: an entry that repeats an earlier entry changes nothing (the dumper drops such entries)        *)
(* ======================================================================================================== *)
Fixpoint alias_has (n f : str) (a : aliases) : bool :=
  match a with
  | [] => false
  | (k, qs) :: r => if str_eqb k n then mem_str f qs else alias_has n f r
  end.

Lemma str_eqb_refl s : str_eqb s s = true.
Proof. induction s as [|c s IH]; cbn; [reflexivity|]. rewrite Ascii.eqb_refl. exact IH. Qed.

Lemma str_eqb_eq a b : str_eqb a b = true -> a = b.
Proof.
  revert b; induction a as [|x a IH]; intros [|y b] H; cbn in H; try discriminate; [reflexivity|].
  apply andb_true_iff in H as [H1 H2]. apply Ascii.eqb_eq in H1. subst. f_equal. auto.
Qed.

Lemma mem_str_app_r x l y : mem_str x l = true -> mem_str x (l ++ [y]) = true.
Proof. induction l as [|z l IH]; cbn; [discriminate|]. intro H. apply orb_true_iff in H as [H|H]; [rewrite H; reflexivity|]. rewrite (IH H). apply orb_true_r. Qed.

Lemma mem_str_app_new x l : mem_str x (l ++ [x]) = true.
Proof. induction l as [|z l IH]; cbn; [rewrite str_eqb_refl; reflexivity|]. rewrite IH. apply orb_true_r. Qed.

Lemma alias_add_has n f a : alias_has n f (alias_add n f a) = true.
Proof.
  induction a as [|[k qs] r IH]; cbn.
  - rewrite str_eqb_refl. cbn. rewrite str_eqb_refl. reflexivity.
  - destruct (str_eqb k n) eqn:E; cbn; rewrite E.
    + destruct (mem_str f qs) eqn:M; [exact M|apply mem_str_app_new].
    + exact IH.
Qed.

Lemma alias_add_keeps n f n' f' a : alias_has n f a = true -> alias_has n f (alias_add n' f' a) = true.
Proof.
  induction a as [|[k qs] r IH]; cbn; [discriminate|].
  destruct (str_eqb k n) eqn:E; intro H.
  - destruct (str_eqb k n') eqn:E'; cbn; rewrite E; [|exact H].
    destruct (mem_str f' qs); [exact H|apply mem_str_app_r; exact H].
  - destruct (str_eqb k n') eqn:E'; cbn; rewrite E; [exact H|auto].
Qed.

Lemma alias_add_idem n f a : alias_has n f a = true -> alias_add n f a = a.
Proof.
  induction a as [|[k qs] r IH]; cbn; [discriminate|].
  destruct (str_eqb k n) eqn:E; intro H.
  - rewrite H. reflexivity.
  - rewrite (IH H). reflexivity.
Qed.

(* what one entry does depends on the table only through one alias_add *)
Inductive step_effect := SErr (e : err) | SSkip | SAdd (n f : str).
Definition effect_of (package : str) (e : aentry) : step_effect :=
  match alias_step package e [] with
  | Err x => SErr x
  | Ok [] => SSkip
  | Ok ((n, [f]) :: _) => SAdd n f
  | Ok _ => SSkip
  end.

Lemma alias_step_effect package e a :
  alias_step package e a =
  match effect_of package e with SErr x => Err x | SSkip => Ok a | SAdd n f => Ok (alias_add n f a) end.
Proof.
  unfold effect_of, alias_step.
  destruct (ae_kind e), (ae_tinfo e) as [[tn tf]|], (ae_name e), (ae_fullname e), (ae_node e), (ae_tv e) as [b1 b2 [o|]| |];
    cbn; repeat (match goal with |- context [if ?b then _ else _] => destruct b end; cbn); try reflexivity;
    repeat (match goal with |- context [match ?x with _ => _ end] => destruct x; cbn end); try reflexivity.
Qed.

Lemma get_aliases_app package es1 es2 a :
  get_aliases package (es1 ++ es2) a = match get_aliases package es1 a with Ok a' => get_aliases package es2 a' | Err x => Err x end.
Proof.
  revert a; induction es1 as [|e r IH]; intro a; cbn; [reflexivity|].
  destruct (alias_step package e a); cbn; [apply IH|reflexivity].
Qed.

Lemma get_aliases_keeps package n f es : forall a a', alias_has n f a = true -> get_aliases package es a = Ok a' -> alias_has n f a' = true.
Proof.
  induction es as [|e r IH]; intros a a' H; cbn.
  - intro E; inversion E; subst; exact H.
  - rewrite alias_step_effect. destruct (effect_of package e); cbn; [discriminate| |]; intro E.
    + eapply IH; eauto.
    + eapply IH; [|exact E]. apply alias_add_keeps; exact H.
Qed.

Theorem alias_later_duplicate_irrelevant package e es1 es2 es3 a :
  get_aliases package (es1 ++ e :: es2 ++ e :: es3) a = get_aliases package (es1 ++ e :: es2 ++ es3) a.
Proof.
  rewrite !get_aliases_app. destruct (get_aliases package es1 a) as [a1|]; [|reflexivity].
  cbn. rewrite (alias_step_effect package e a1).
  destruct (effect_of package e) eqn:EF; cbn; [reflexivity| |].
  - rewrite !get_aliases_app. destruct (get_aliases package es2 a1) as [a2|]; [|reflexivity].
    cbn. rewrite (alias_step_effect package e a2), EF. reflexivity.
  - rewrite !get_aliases_app. destruct (get_aliases package es2 (alias_add n f a1)) as [a2|] eqn:G; [|reflexivity].
    cbn. rewrite (alias_step_effect package e a2), EF. cbn.
    rewrite alias_add_idem; [reflexivity|]. eapply get_aliases_keeps; [|exact G]. apply alias_add_has.
Qed.
