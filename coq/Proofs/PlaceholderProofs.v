(* C10 / C11: the placeholder stubs of classes of other libraries.  Whatever the order in which the foreign classes arrive (the
   classes of one module need not be adjacent: `ctypes.CDLL < ctypes._endian.X < ctypes.c_int`), the placeholder file of a
   module ends up as its header followed by the text of every class of that module, in arrival order, each once - a file left
   from an earlier run is overwritten by the first class of its module and never appended to twice. *)
From Coq Require Import List Ascii String Bool Arith Lia.
From SV Require Import Lib.Str Gen.Tables Model.Types Model.Naming Model.Api Model.Back Model.Layout
  Proofs.TypesProofs Proofs.SortProofs Proofs.GenProofs.
Import ListNotations.

Definition mod_parts (c : str) : list str := removelast (split_ch "."%char c).
Definition cls_name_of (c : str) : str := last (split_ch "."%char c) [].
Definition mp_of (c : str) : str := join (K"/") (mod_parts c).
Definition file_of (c : str) : str := path_join (mp_of c) (last (mod_parts c) [] ++ K".sdsstub").
Definition header_of (nc : bool) (c : str) : str :=
  let py := join (K".") (mod_parts c) in
  let cc := convert nc false py in
  (if str_eqb py cc then [] else K"@PythonModule(""" ++ py ++ K""")" ++ NL) ++ K"package " ++ escape_path cc ++ NL.
Definition text_of (nc : bool) (c : str) : str := outside_class_text nc (cls_name_of c).

(* the qualified names are well formed: module path and file name each determine the module (true of dotted Python names,
   whose segments contain no '/') *)
Definition well_formed (cs : list str) : Prop :=
  forall c1 c2, In c1 cs -> In c2 cs ->
    (mp_of c1 = mp_of c2 -> mod_parts c1 = mod_parts c2) /\ (file_of c1 = file_of c2 -> mod_parts c1 = mod_parts c2).

Definition same_mod (c d : str) : bool := str_eqb (mp_of c) (mp_of d).

Fixpoint go_outside (nc : bool) (cs : list str) (st : fsys * list str) : res (fsys * list str) :=
  match cs with
  | [] => Ok st
  | c :: r => match create_outside_class nc c st with Ok st' => go_outside nc r st' | Err e => Err e end
  end.

Lemma create_stub_files_go nc data outside fs0 :
  create_stub_files nc data outside fs0 =
  match go_outside nc (sort_str outside)
          (fold_left (fun fs e => fs_write (entry_path e) (let '(_, _, t, _) := e in t) fs) data fs0, []) with
  | Ok (fs, _) => Ok fs
  | Err e => Err e
  end.
Proof.
  unfold create_stub_files.
  match goal with |- match ?G _ _ with _ => _ end = _ => assert (E : forall cs st, G cs st = go_outside nc cs st) end.
  { induction cs as [|c r IH]; intro st; cbn; [reflexivity|]. destruct (create_outside_class nc c st); [apply IH|reflexivity]. }
  rewrite E. reflexivity.
Qed.

Lemma str_eqb_false_neq a b : str_eqb a b = false -> a <> b.
Proof. intros E H. subst. rewrite str_eqb_refl in E. discriminate. Qed.
Lemma str_eqb_true a b : str_eqb a b = true -> a = b.
Proof. apply str_eqb_eq. Qed.

Lemma file_header_of_parts c d : mod_parts c = mod_parts d -> file_of c = file_of d /\ forall nc, header_of nc c = header_of nc d.
Proof. intro E. unfold file_of, header_of, mp_of. rewrite E. auto. Qed.

Section Placeholders.
  Variable nc : bool.

  (* what one step does, in terms of the definitions above *)
  Lemma create_outside_class_step c fs created st' :
    create_outside_class nc c (fs, created) = Ok st' ->
    mod_parts c <> [] /\
    let first := negb (mem_str (mp_of c) created) in
    snd st' = (if first then created ++ [mp_of c] else created) /\
    fst st' = (if first then fs_write (file_of c) (header_of nc c ++ text_of nc c) fs
               else match fs_lookup (file_of c) fs with
                    | Some _ => fs_append (file_of c) (text_of nc c) fs
                    | None => fs_write (file_of c) (header_of nc c ++ text_of nc c) fs
                    end).
  Proof.
    unfold create_outside_class. fold (mod_parts c). fold (cls_name_of c).
    destruct (mod_parts c) as [|p0 ps] eqn:MP; [discriminate|].
    intro H. split; [discriminate|]. cbv zeta.
    assert (EMP : mp_of c = join (K"/") (p0 :: ps)) by (unfold mp_of; rewrite MP; reflexivity).
    assert (EF : file_of c = path_join (join (K"/") (p0 :: ps)) (last (p0 :: ps) [] ++ K".sdsstub")) by (unfold file_of, mp_of; rewrite MP; reflexivity).
    assert (EH : header_of nc c = (if str_eqb (join (K".") (p0 :: ps)) (convert nc false (join (K".") (p0 :: ps))) then []
                                   else K"@PythonModule(""" ++ join (K".") (p0 :: ps) ++ K""")" ++ NL) ++
                                  K"package " ++ escape_path (convert nc false (join (K".") (p0 :: ps))) ++ NL)
      by (unfold header_of; rewrite MP; reflexivity).
    rewrite EMP, EF, EH. unfold text_of.
    destruct (mem_str (join (K"/") (p0 :: ps)) created); cbn [negb] in *;
      destruct (fs_lookup _ fs); inversion H; subst; cbn [fst snd]; rewrite <- ?app_assoc; auto.
  Qed.

  Definition content_of (done : list str) (c : str) : str :=
    header_of nc c ++ List.concat (map (text_of nc) (filter (same_mod c) done)).

  (* the invariant of the loop *)
  Definition inv (done : list str) (st : fsys * list str) : Prop :=
    (forall mp, In mp (snd st) <-> exists c, In c done /\ mp_of c = mp) /\
    (forall c, In c done -> fs_lookup (file_of c) (fst st) = Some (content_of done c)).

  Lemma filter_same_mod_snoc c done d :
    filter (same_mod c) (done ++ [d]) = filter (same_mod c) done ++ (if same_mod c d then [d] else []).
  Proof. rewrite filter_app. cbn. destruct (same_mod c d); reflexivity. Qed.

  Lemma inv_step done c st st' :
    well_formed (done ++ [c]) -> inv done st -> create_outside_class nc c st = Ok st' -> inv (done ++ [c]) st'.
  Proof.
    intros WF [IC IF] H. destruct st as [fs created].
    destruct (create_outside_class_step _ _ _ _ H) as (NE & EC & EFS). cbv zeta in EC, EFS. cbn [fst snd] in *.
    assert (FIRST : mem_str (mp_of c) created = false <-> forall d, In d done -> mp_of d <> mp_of c).
    { split.
      - intros E d Hd Heq. assert (In (mp_of c) created) by (apply IC; eauto). apply mem_str_In in H0. congruence.
      - intro Hn. destruct (mem_str (mp_of c) created) eqn:E; [|reflexivity]. apply mem_str_In in E. apply IC in E.
        destruct E as (d & Hd & Heq). exfalso. exact (Hn d Hd Heq). }
    split.
    - (* the created list *)
      intro mp. rewrite EC. destruct (mem_str (mp_of c) created) eqn:E; cbn [negb].
      + rewrite IC. split.
        * intros (d & Hd & Heq). exists d. split; [apply in_or_app; auto|exact Heq].
        * intros (d & Hd & Heq). apply in_app_or in Hd. destruct Hd as [Hd|[<-|[]]]; [eauto|].
          apply mem_str_In in E. apply IC in E. destruct E as (d' & Hd' & Heq'). exists d'. split; [exact Hd'|congruence].
      + rewrite in_app_iff, IC. cbn. split.
        * intros [(d & Hd & Heq)|[<-|[]]]; [exists d; split; [apply in_or_app; auto|exact Heq]|exists c; split; [apply in_or_app; right; left; reflexivity|reflexivity]].
        * intros (d & Hd & Heq). apply in_app_or in Hd. destruct Hd as [Hd|[<-|[]]]; [left; eauto|right; left; exact Heq].
    - (* the files *)
      intros d Hd. unfold content_of. rewrite filter_same_mod_snoc.
      assert (WFd : In d (done ++ [c])) by exact Hd.
      assert (WFc : In c (done ++ [c])) by (apply in_or_app; right; left; reflexivity).
      destruct (WF d c WFd WFc) as [WF1 WF2].
      rewrite EFS. destruct (mem_str (mp_of c) created) eqn:E; cbn [negb].
      + (* the module has been met: its file exists and is appended to *)
        assert (EX : exists d0, In d0 done /\ mp_of d0 = mp_of c) by (apply IC; apply mem_str_In; exact E).
        destruct EX as (d0 & Hd0 & Heq0).
        assert (WF0 : In d0 (done ++ [c])) by (apply in_or_app; auto).
        destruct (WF d0 c WF0 WFc) as [WF01 _]. destruct (file_header_of_parts _ _ (WF01 Heq0)) as [EF0 EH0].
        pose proof (IF d0 Hd0) as L0. rewrite EF0 in L0. rewrite L0. unfold fs_append. rewrite L0.
        unfold same_mod. destruct (str_eqb (mp_of d) (mp_of c)) eqn:SM.
        * apply str_eqb_true in SM. destruct (file_header_of_parts _ _ (WF1 SM)) as [EFd EHd].
          rewrite EFd. rewrite fs_lookup_write_same. unfold content_of. rewrite (EH0 nc), <- (EHd nc).
          assert (FE : filter (same_mod d0) done = filter (same_mod d) done).
          { apply filter_ext. intro z. unfold same_mod. rewrite Heq0, <- SM. reflexivity. }
          rewrite FE. rewrite <- app_assoc. f_equal. rewrite map_app, concat_app. cbn. rewrite app_nil_r. reflexivity.
        * apply in_app_or in Hd. destruct Hd as [Hd|[<-|[]]]; [|rewrite str_eqb_refl in SM; discriminate].
          rewrite fs_lookup_write_other.
          -- rewrite app_nil_r. exact (IF d Hd).
          -- destruct (str_eqb (file_of d) (file_of c)) eqn:FE; [|reflexivity]. apply str_eqb_true in FE.
             exfalso. apply str_eqb_false_neq in SM. apply SM. destruct (file_header_of_parts _ _ (WF2 FE)) as [_ _].
             unfold mp_of. rewrite (WF2 FE). reflexivity.
      + (* first class of its module: the file is (over)written *)
        assert (NONE : forall z, In z done -> mp_of z <> mp_of c) by (apply FIRST; reflexivity).
        unfold same_mod. destruct (str_eqb (mp_of d) (mp_of c)) eqn:SM.
        * apply str_eqb_true in SM. apply in_app_or in Hd. destruct Hd as [Hd|[<-|[]]]; [exfalso; exact (NONE d Hd SM)|].
          rewrite fs_lookup_write_same. f_equal. f_equal.
          assert (FN : filter (fun z => str_eqb (mp_of c) (mp_of z)) done = []).
          { clear -NONE. induction done as [|z r IH]; [reflexivity|]. cbn. destruct (str_eqb (mp_of c) (mp_of z)) eqn:Z.
            - apply str_eqb_true in Z. exfalso. apply (NONE z); [left; reflexivity|congruence].
            - apply IH. intros w Hw. apply NONE. right. exact Hw. }
          rewrite FN. cbn. rewrite app_nil_r. reflexivity.
        * apply in_app_or in Hd. destruct Hd as [Hd|[<-|[]]]; [|rewrite str_eqb_refl in SM; discriminate].
          rewrite fs_lookup_write_other.
          -- rewrite app_nil_r. exact (IF d Hd).
          -- destruct (str_eqb (file_of d) (file_of c)) eqn:FE; [|reflexivity]. apply str_eqb_true in FE.
             exfalso. apply str_eqb_false_neq in SM. apply SM. unfold mp_of. rewrite (WF2 FE). reflexivity.
  Qed.

  Lemma well_formed_prefix a b : well_formed (a ++ b) -> well_formed a.
  Proof. intros WF c1 c2 H1 H2. apply WF; apply in_or_app; auto. Qed.

  Lemma go_outside_inv cs : forall done st st',
    well_formed (done ++ cs) -> inv done st -> go_outside nc cs st = Ok st' -> inv (done ++ cs) st'.
  Proof.
    induction cs as [|c r IH]; intros done st st' WF I H; cbn [go_outside] in H.
    - inversion H; subst. rewrite app_nil_r. exact I.
    - destruct (create_outside_class nc c st) as [st1|] eqn:E; [|discriminate].
      replace (done ++ c :: r) with ((done ++ [c]) ++ r) in * by (rewrite <- app_assoc; reflexivity).
      eapply IH; [exact WF| |exact H]. eapply inv_step; [eapply well_formed_prefix; exact WF|exact I|exact E].
  Qed.

  (* every foreign class is declared exactly once in the placeholder file of its module, after its header, in arrival order -
     for every arrival order and every initial content of the output directory *)
  Theorem placeholder_files_complete cs fs0 fs created :
    well_formed cs -> go_outside nc cs (fs0, []) = Ok (fs, created) ->
    forall c, In c cs -> fs_lookup (file_of c) fs = Some (header_of nc c ++ List.concat (map (text_of nc) (filter (same_mod c) cs))).
  Proof.
    intros WF H c Hc.
    assert (I0 : inv [] (fs0, [])) by (split; [intro mp; cbn; split; [intros []|intros (x & [] & _)]|intros x []]).
    pose proof (go_outside_inv cs [] (fs0, []) (fs, created) WF I0 H) as [_ IF]. exact (IF c Hc).
  Qed.
End Placeholders.

(* the hypotheses are met by ordinary names, and the statement says something: the interleaved example of the brief of C10_e *)
Definition ctypes_example : list str := sort_str [K"ctypes.c_int"; K"ctypes.CDLL"; K"ctypes._endian.BigEndianStructure"].
Example ctypes_example_well_formed : well_formed ctypes_example.
Proof.
  intros c1 c2 H1 H2. vm_compute in H1, H2.
  destruct H1 as [<-|[<-|[<-|[]]]]; destruct H2 as [<-|[<-|[<-|[]]]]; split; vm_compute; intro H; try reflexivity; discriminate H.
Qed.
Example ctypes_example_file :
  match go_outside false ctypes_example ([], []) with
  | Ok (fs, _) => fs_lookup (K"ctypes/ctypes.sdsstub") fs
  | Err _ => None
  end = Some (K"package ctypes" ++ NL ++ NL ++ K"class CDLL" ++ NL ++ NL ++ K"class c_int" ++ NL).
Proof. vm_compute. reflexivity. Qed.

(* ---------- well_formed holds for names whose module segments are non-empty and contain no '/' ---------- *)
Definition slash_free (p : str) : bool := negb (existsb (fun x => Ascii.eqb x "/"%char) p).
Definition good_name (c : str) : Prop :=
  mod_parts c <> [] /\ Forall (fun p => slash_free p = true /\ p <> []) (mod_parts c).

Lemma split_slash_free p : slash_free p = true -> split_ch "/"%char p = [p].
Proof.
  unfold slash_free. induction p as [|x r IH]; cbn; [reflexivity|]. intro H. apply negb_true_iff in H.
  apply orb_false_iff in H. destruct H as [H1 H2]. rewrite H1. rewrite IH; [reflexivity|]. apply negb_true_iff. exact H2.
Qed.

Lemma split_app_slash p r : slash_free p = true -> split_ch "/"%char (p ++ "/"%char :: r) = p :: split_ch "/"%char r.
Proof.
  unfold slash_free. induction p as [|x q IH]; cbn [app split_ch existsb]; intro H.
  - rewrite Ascii.eqb_refl. reflexivity.
  - apply negb_true_iff in H. apply orb_false_iff in H. destruct H as [H1 H2]. rewrite H1.
    rewrite IH; [reflexivity|]. apply negb_true_iff. exact H2.
Qed.

Lemma split_join_slash l : l <> [] -> Forall (fun p => slash_free p = true) l -> split_ch "/"%char (join (K"/") l) = l.
Proof.
  induction l as [|p r IH]; [congruence|]. intros _ HF. inversion HF as [|? ? Hp Hr]; subst.
  destruct r as [|q r'].
  - cbn [join]. apply split_slash_free. exact Hp.
  - cbn [join]. change (K"/") with ["/"%char]. cbn [app]. rewrite split_app_slash by exact Hp.
    f_equal. apply IH; [discriminate|exact Hr].
Qed.

Lemma join_snoc l x : l <> [] -> join (K"/") (l ++ [x]) = join (K"/") l ++ K"/" ++ x.
Proof.
  induction l as [|p r IH]; [congruence|]. intros _. destruct r as [|q r'].
  - reflexivity.
  - cbn [app join] in *. rewrite IH by discriminate. rewrite <- !app_assoc. reflexivity.
Qed.

Lemma join_nonempty l : l <> [] -> Forall (fun p : str => p <> []) l -> join (K"/") l <> [].
Proof.
  destruct l as [|p r]; [congruence|]. intros _ HF. inversion HF; subst. destruct r; cbn [join]; [assumption|].
  destruct p; [congruence|discriminate].
Qed.

Lemma slash_free_app a b : slash_free a = true -> slash_free b = true -> slash_free (a ++ b) = true.
Proof.
  unfold slash_free. intros Ha Hb. apply negb_true_iff in Ha, Hb. apply negb_true_iff. rewrite existsb_app, Ha, Hb. reflexivity.
Qed.

Theorem good_names_are_well_formed cs : Forall good_name cs -> well_formed cs.
Proof.
  intros HG c1 c2 H1 H2. rewrite Forall_forall in HG. destruct (HG c1 H1) as [N1 F1], (HG c2 H2) as [N2 F2].
  assert (S1 : Forall (fun p => slash_free p = true) (mod_parts c1)) by (eapply Forall_impl; [|exact F1]; cbn; tauto).
  assert (S2 : Forall (fun p => slash_free p = true) (mod_parts c2)) by (eapply Forall_impl; [|exact F2]; cbn; tauto).
  assert (E1 : Forall (fun p : str => p <> []) (mod_parts c1)) by (eapply Forall_impl; [|exact F1]; cbn; tauto).
  assert (E2 : Forall (fun p : str => p <> []) (mod_parts c2)) by (eapply Forall_impl; [|exact F2]; cbn; tauto).
  split.
  - unfold mp_of. intro H. rewrite <- (split_join_slash _ N1 S1), <- (split_join_slash _ N2 S2), H. reflexivity.
  - unfold file_of, mp_of, path_join. intro H.
    destruct (join (K"/") (mod_parts c1)) eqn:J1; [exfalso; exact (join_nonempty _ N1 E1 J1)|].
    destruct (join (K"/") (mod_parts c2)) eqn:J2; [exfalso; exact (join_nonempty _ N2 E2 J2)|].
    rewrite <- J1, <- J2 in H. rewrite <- (join_snoc _ _ N1), <- (join_snoc _ _ N2) in H.
    assert (L1 : slash_free (last (mod_parts c1) [] ++ K".sdsstub") = true).
    { apply slash_free_app; [|reflexivity]. clear -N1 S1. induction (mod_parts c1) as [|p r IH]; [congruence|].
      inversion S1; subst. destruct r; [assumption|]. apply IH; [discriminate|assumption]. }
    assert (L2 : slash_free (last (mod_parts c2) [] ++ K".sdsstub") = true).
    { apply slash_free_app; [|reflexivity]. clear -N2 S2. induction (mod_parts c2) as [|p r IH]; [congruence|].
      inversion S2; subst. destruct r; [assumption|]. apply IH; [discriminate|assumption]. }
    assert (X : mod_parts c1 ++ [last (mod_parts c1) [] ++ K".sdsstub"] = mod_parts c2 ++ [last (mod_parts c2) [] ++ K".sdsstub"]).
    { rewrite <- (split_join_slash (mod_parts c1 ++ [_])), <- (split_join_slash (mod_parts c2 ++ [_])), H; try reflexivity.
      - intro Z. apply app_eq_nil in Z. destruct Z; discriminate.
      - apply Forall_app. split; [exact S2|constructor; [exact L2|constructor]].
      - intro Z. apply app_eq_nil in Z. destruct Z; discriminate.
      - apply Forall_app. split; [exact S1|constructor; [exact L1|constructor]]. }
    apply app_inj_tail in X. exact (proj1 X).
Qed.

(* C16: what the output directory held before (an earlier run included) does not influence the placeholder files *)
Theorem placeholder_files_independent_of_initial_tree nc cs fsa fsb fa ca fb cb :
  well_formed cs -> go_outside nc cs (fsa, []) = Ok (fa, ca) -> go_outside nc cs (fsb, []) = Ok (fb, cb) ->
  forall c, In c cs -> fs_lookup (file_of c) fa = fs_lookup (file_of c) fb.
Proof.
  intros WF HA HB c Hc.
  rewrite (placeholder_files_complete nc cs fsa fa ca WF HA c Hc), (placeholder_files_complete nc cs fsb fb cb WF HB c Hc). reflexivity.
Qed.

(* C11: every class of another library that is registered for a placeholder is declared in the placeholder file of its module *)
Theorem placeholder_declares_every_class nc cs fs0 fs created :
  well_formed cs -> go_outside nc cs (fs0, []) = Ok (fs, created) ->
  forall c, In c cs -> exists pre post, fs_lookup (file_of c) fs = Some (pre ++ text_of nc c ++ post).
Proof.
  intros WF H c Hc. rewrite (placeholder_files_complete nc cs fs0 fs created WF H c Hc).
  assert (IN : In c (filter (same_mod c) cs)) by (apply filter_In; split; [exact Hc|unfold same_mod; apply str_eqb_refl]).
  destruct (in_split _ _ IN) as (l1 & l2 & E). rewrite E, map_app, concat_app. cbn [map List.concat].
  exists (header_of nc c ++ List.concat (map (text_of nc) l1)), (List.concat (map (text_of nc) l2)).
  rewrite <- !app_assoc. reflexivity.
Qed.
