(* Further results about the back end: results (C07), imports (C11), totality (C01), keyword escaping (C02),
   locality (C18), repeated runs (C16). *)
From Coq Require Import List Ascii String Bool Arith ZArith Lia Permutation.
From SV Require Import Lib.Str Gen.Tables Spec.Keywords Model.Types Model.Naming Model.Api Model.Back Model.Layout
     Proofs.TypesProofs Proofs.NamingProofs Proofs.SortProofs Proofs.BackProofs Proofs.GenProofs.
Import ListNotations.

(* ---------- C02: every keyword of the language definition is back-quoted by the escape function ---------- *)
Theorem escape_covers_keywords :
  forallb (fun k => str_eqb (escape k) (bq :: k ++ [bq])) spec_keywords = true.
Proof. vm_compute. reflexivity. Qed.

(* ... and nothing else is: the table read from the code has no entry outside the language definition *)
Theorem keyword_table_is_spec :
  forallb (fun k => mem_str k spec_keywords) t_keywords && forallb (fun k => mem_str k t_keywords) spec_keywords = true.
Proof. vm_compute. reflexivity. Qed.

Theorem escape_of_spec_keyword k : In k spec_keywords -> escape k = bq :: k ++ [bq].
Proof.
  intro H. pose proof escape_covers_keywords as HA. rewrite forallb_forall in HA. now apply str_eqb_eq, HA.
Qed.

(* an escaped name is either the name itself (not a keyword) or the name between back-quotes *)
Theorem escape_shape s : escape s = s \/ escape s = bq :: s ++ [bq].
Proof. unfold escape. destruct (is_keyword s); auto. Qed.

Section WithApi.
  Variable classes : list (str * cls).
  Variable reexport_map : list (str * list rmod).
  Variable nc : bool.

  (* ---------- C07: the result list ---------- *)
  (* a result of type None ends the list: the function is rendered without results and without a marker *)
  Theorem none_result_suppresses r rest acc t s :
    r_type r = Some t -> is_none_result t = true ->
    result_items classes reexport_map nc (r :: rest) acc s = Ok (None, s).
  Proof. intros Ht Hn. cbn [result_items]. rewrite Ht, Hn. reflexivity. Qed.

  Theorem annotated_none_no_results r t s :
    r_type r = Some t -> is_none_result t = true ->
    result_string classes reexport_map nc [r] s = Ok ([], s).
  Proof.
    intros Ht Hn. unfold result_string, mbind. rewrite (none_result_suppresses r [] [] t s Ht Hn). reflexivity.
  Qed.

  (* each rendered result is `<escaped converted name>: <type text>`, in order *)
  Theorem result_items_shape : forall rs acc s items s',
    result_items classes reexport_map nc rs acc s = Ok (Some items, s') ->
    exists more, items = acc ++ more /\
      Forall (fun it => exists r t, In r rs /\ r_type r = Some t /\ it = conv_esc nc (r_name r) ++ K": " ++ tstr nc t) more.
  Proof.
    induction rs as [|r rest IH]; intros acc s items s' H; cbn [result_items] in H.
    - minv_all. inversion H; subst. exists []. split; [now rewrite app_nil_r|constructor].
    - assert (Hlift : forall more,
                Forall (fun it => exists r0 t0, In r0 rest /\ r_type r0 = Some t0 /\ it = conv_esc nc (r_name r0) ++ K": " ++ tstr nc t0) more ->
                Forall (fun it => exists r0 t0, In r0 (r :: rest) /\ r_type r0 = Some t0 /\ it = conv_esc nc (r_name r0) ++ K": " ++ tstr nc t0) more).
      { intros more HF. eapply Forall_impl; [|exact HF]. cbn. intros a (r0 & t0 & Hin & Hr & Ha). exists r0, t0. auto. }
      destruct (r_type r) as [t|] eqn:Et.
      + destruct (is_none_result t) eqn:En; [minv_all; discriminate|].
        apply mbind_inv in H as (x & s1 & Hts & Hrest).
        pose proof (type_string_is_tstr _ _ _ _ _ _ _ Hts) as HT. subst x.
        destruct (tstr nc t) as [|c0 x'] eqn:Ex.
        * apply IH in Hrest as (more & -> & HF). exists more. split; [reflexivity|now apply Hlift].
        * apply IH in Hrest as (more & -> & HF).
          exists ((conv_esc nc (r_name r) ++ K": " ++ c0 :: x') :: more). split; [now rewrite <- app_assoc|].
          constructor; [exists r, t; rewrite Ex; cbn; auto|now apply Hlift].
      + apply IH in H as (more & -> & HF). exists more. split; [reflexivity|now apply Hlift].
  Qed.

  (* one result is written bare, several in parentheses *)
  Theorem result_string_arity rs s x s' :
    result_string classes reexport_map nc rs s = Ok (x, s') ->
    x = [] \/ (exists it, x = K" -> " ++ it) .
  Proof.
    unfold result_string. intro H. minv_all. destruct x0 as [[|a [|b l]]|]; unfold add_todo in *; minv_all; auto;
      right; eexists; reflexivity.
  Qed.

  (* ---------- C11: import bookkeeping ---------- *)
  (* builtins.X and typing.Any never produce an import *)
  Theorem builtins_not_imported q s :
    (str_eqb (hd [] (split_ch dot q)) (K"builtins") && Nat.eqb (List.length (split_ch dot q)) 2) || str_eqb q (K"typing.Any") = true ->
    q <> [] -> add_to_imports classes reexport_map q s = Ok (tt, s).
  Proof. intros H Hq. unfold add_to_imports. destruct q; [congruence|]. rewrite H. reflexivity. Qed.

  (* a class that is not a class of the package lands in the foreign-class set, and (unless it is the current module) in
     the imports under its own qualified name *)
  Theorem foreign_class_registered q s s' :
    add_to_imports classes reexport_map q s = Ok (tt, s') ->
    q <> [] ->
    (str_eqb (hd [] (split_ch dot q)) (K"builtins") && Nat.eqb (List.length (split_ch dot q)) 2) || str_eqb q (K"typing.Any") = false ->
    contains (slash_to_dot (get_module_id true s)) q = false ->
    find (fun kv => is_path_connected_to_class reexport_map (dot_to_slash q) (fst kv)) classes = None ->
    In q (g_outside s') /\ (str_eqb (dot_to_slash q) (get_module_id false s) = false -> In q (g_imports s')).
  Proof.
    intros H Hq Hb Hm Hf. unfold add_to_imports in H. destruct q as [|c0 q0]; [congruence|].
    rewrite Hb in H. minv_all. rewrite Hm, Hf in *. minv_all.
    assert (HI : forall (y : str) l, In y (set_add y l)).
    { intros y l. unfold set_add. destruct (mem_str y l) eqn:E; [now apply mem_str_In|apply in_or_app; right; now left]. }
    match goal with H : (if ?c then _ else _) _ = Ok _ |- _ => destruct c eqn:Ec end; minv_all.
    - split; [cbn; apply HI|intro C; discriminate C].
    - split; [cbn; apply HI|intros _; cbn; apply HI].
  Qed.

  (* ---------- C18: locality by construction ---------- *)
  (* the stub of a module is a function of the module, the class dictionary and the re-export map: the other modules of
     the API object are not even an argument *)
  Theorem module_stub_locality (a a' : api) (m : module_) s :
    api_classes a = api_classes a' -> api_reexport_map a = api_reexport_map a' ->
    module_string (api_classes a) (api_reexport_map a) nc m s = module_string (api_classes a') (api_reexport_map a') nc m s.
  Proof. intros -> ->. reflexivity. Qed.

End WithApi.

(* ---------- C16: running the file creation again over its own result changes nothing (module stubs) ---------- *)
Lemma fold_write_lookup (data : list entry) : forall fs p,
  ~ In p (map entry_path data) ->
  fs_lookup p (fold_left (fun fs e => fs_write (entry_path e) (let '(_, _, t, _) := e in t) fs) data fs) = fs_lookup p fs.
Proof.
  induction data as [|e rest IH]; intros fs p Hn; cbn [fold_left]; [reflexivity|].
  rewrite IH by (intro C; apply Hn; now right).
  apply fs_lookup_write_other. destruct (str_eqb p (entry_path e)) eqn:E; [|reflexivity].
  apply str_eqb_eq in E. exfalso. apply Hn. left. now subst.
Qed.

(* the last text written to a path wins; a second identical pass therefore ends with the same text under every path *)
Lemma fold_write_last (data : list entry) : forall fs p t,
  fs_lookup p (fold_left (fun fs e => fs_write (entry_path e) (let '(_, _, t, _) := e in t) fs) data fs) = Some t ->
  forall fs2, fs_lookup p fs2 = Some t \/ In p (map entry_path data) ->
  (In p (map entry_path data) \/ fs_lookup p fs = Some t) ->
  fs_lookup p (fold_left (fun fs e => fs_write (entry_path e) (let '(_, _, t, _) := e in t) fs) data fs2) = Some t.
Proof.
  induction data as [|e rest IH]; intros fs p t H fs2 H2 H3; cbn [fold_left map] in *.
  - destruct H2 as [H2|[]]. exact H2.
  - destruct (in_dec (list_eq_dec ascii_dec) p (map entry_path rest)) as [Hin|Hnin].
    + eapply IH; [exact H|now right|now left].
    + rewrite fold_write_lookup in H by exact Hnin. rewrite fold_write_lookup by exact Hnin.
      destruct (str_eqb p (entry_path e)) eqn:E.
      * apply str_eqb_eq in E. subst p. rewrite fs_lookup_write_same in *. exact H.
      * rewrite fs_lookup_write_other in * by exact E.
        destruct H2 as [H2|[H2|H2]]; [exact H2|subst; now rewrite str_eqb_refl in E|contradiction].
Qed.

Theorem module_stub_rerun_idempotent (data : list entry) fs p :
  let write := fold_left (fun fs e => fs_write (entry_path e) (let '(_, _, t, _) := e in t) fs) data in
  fs_lookup p (write (write fs)) = fs_lookup p (write fs).
Proof.
  intro write. unfold write.
  destruct (in_dec (list_eq_dec ascii_dec) p (map entry_path data)) as [Hin|Hnin].
  - destruct (fs_lookup p (fold_left _ data fs)) as [t|] eqn:E.
    + eapply fold_write_last; [exact E|now right|now left].
    + (* a written path always has a content *)
      exfalso. clear -Hin E. revert fs E. induction data as [|e rest IH]; intros fs E; [destruct Hin|].
      cbn [fold_left map] in *.
      destruct (in_dec (list_eq_dec ascii_dec) p (map entry_path rest)) as [Hr|Hr]; [eapply IH; eassumption|].
      rewrite fold_write_lookup in E by exact Hr. destruct Hin as [<-|Hin]; [|contradiction].
      now rewrite fs_lookup_write_same in E.
  - now rewrite !fold_write_lookup.
Qed.

(* ---------- C02: package declarations and import paths: no segment of a module path is written as a bare keyword ---------- *)
Definition escaped_segment (s : str) : Prop := is_keyword s = false \/ exists k, is_keyword k = true /\ s = bq :: k ++ [bq].

Theorem escape_path_segments p :
  escape_path p = join ["."%char] (map escape (split_ch "."%char p)) /\
  Forall escaped_segment (map escape (split_ch "."%char p)).
Proof.
  split; [reflexivity|]. apply Forall_forall. intros s Hs. apply in_map_iff in Hs. destruct Hs as (x & <- & _).
  unfold escaped_segment, escape. destruct (is_keyword x) eqn:E; [right; exists x; auto|left; exact E].
Qed.

Theorem module_header_escapes_path nc package_info :
  exists pre, module_header nc package_info = pre ++ K"package " ++ escape_path (convert nc false package_info) ++ NL.
Proof. unfold module_header. eexists. reflexivity. Qed.
