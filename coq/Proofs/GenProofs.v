(* Proofs about class rendering (C17, C03/C04 filters), layout (C10), the file system (C16) and comments (C13). *)
From Coq Require Import List Ascii String Bool Arith Lia Permutation.
From SV Require Import Lib.Str Gen.Tables Model.Types Model.Naming Model.Api Model.Back Model.Layout
     Proofs.TypesProofs Proofs.NamingProofs Proofs.SortProofs Proofs.BackProofs.
Import ListNotations.

Section WithApi.
  Variable classes : list (str * cls).
  Variable reexport_map : list (str * list rmod).
  Variable nc : bool.

  (* ---------- C17: the `sub` clause ---------- *)
  (* public superclasses are named in declaration order, private ones never *)
  Theorem super_loop_names inline : forall sups names text s r s',
    super_loop classes reexport_map inline sups names text s = Ok (r, s') ->
    fst r = names ++ map super_name (filter (fun sc => negb (is_internal (super_name sc))) sups).
  Proof.
    induction sups as [|sc rest IH]; intros names text s r s' H; cbn [super_loop filter map] in *.
    - minv_all. cbn. now rewrite app_nil_r.
    - destruct (negb (is_internal (super_name sc))) eqn:E.
      + minv_all. match goal with H : super_loop _ _ _ _ _ _ _ = Ok _ |- _ => apply IH in H; rewrite H end.
        cbn. now rewrite <- app_assoc.
      + minv_all. match goal with H : super_loop _ _ _ _ _ _ _ = Ok _ |- _ => apply IH in H; exact H end.
  Qed.

  Corollary super_loop_no_private inline sups s r s' :
    super_loop classes reexport_map inline sups [] [] s = Ok (r, s') ->
    Forall (fun n => is_internal n = false) (fst r).
  Proof.
    intro H. apply super_loop_names in H. rewrite H. cbn. apply Forall_forall. intros n Hn.
    apply in_map_iff in Hn as (sc & <- & Hsc). apply filter_In in Hsc as [_ Hsc]. now apply negb_true_iff in Hsc.
  Qed.

  (* ---------- C17 / C03 / C04: which methods of a class are rendered ---------- *)
  Definition method_skipped (is_internal_class : bool) (already : list str) (m : func) : bool :=
    (negb (f_public m) && (negb is_internal_class || (is_internal_class && is_internal (f_name m))))
    || mem_str (f_name m) already.

  (* the names reported by the method loop are exactly the names of the methods that are not skipped *)
  Theorem class_methods_names : forall ms inner ic already props meths names s r s',
    class_methods classes reexport_map nc ms inner ic already props meths names s = Ok (r, s') ->
    snd r = fold_left (fun acc m => set_add (f_name m) acc) (filter (fun m => negb (method_skipped ic already m)) ms) names.
  Proof.
    induction ms as [|m rest IH]; intros inner ic already props meths names s r s' H; cbn [class_methods filter fold_left] in *.
    - minv_all. reflexivity.
    - fold (method_skipped ic already m) in H. destruct (method_skipped ic already m) eqn:E; cbn [negb].
      + eapply IH; eassumption.
      + destruct (f_prop m); minv_all;
          match goal with H : class_methods _ _ _ _ _ _ _ _ _ _ _ = Ok _ |- _ => apply IH in H; exact H end.
  Qed.

  (* the subclass's own definitions take precedence: a method whose name is already defined is never inlined *)
  Theorem already_defined_not_inlined m rest inner ic already props meths names :
    mem_str (f_name m) already = true ->
    class_methods classes reexport_map nc (m :: rest) inner ic already props meths names =
    class_methods classes reexport_map nc rest inner ic already props meths names.
  Proof. intro H. cbn [class_methods]. rewrite H, orb_true_r. reflexivity. Qed.

  (* a private method of an ordinary class is never rendered; of an inlined private class only if its own name is public *)
  Theorem private_method_skipped m already : f_public m = false -> method_skipped false already m = true.
  Proof. intro H. unfold method_skipped. rewrite H. reflexivity. Qed.
  Theorem internal_named_method_skipped m ic already :
    f_public m = false -> is_internal (f_name m) = true -> method_skipped ic already m = true.
  Proof. intros H1 H2. unfold method_skipped. rewrite H1, H2. destruct ic; reflexivity. Qed.

  (* ---------- C03 / C04: attributes ---------- *)
  Definition attr_rendered (at_ : attr) : bool :=
    a_public at_ && negb (match a_type at_ with Some (TTypeVar _ _) => true | _ => false end).

  Theorem class_attrs_names : forall ats inner acc names s r s',
    class_attrs classes reexport_map nc ats inner acc names s = Ok (r, s') ->
    snd r = fold_left (fun a n => set_add n a) (map a_name (filter attr_rendered ats)) names /\
    List.length (fst r) = List.length acc + List.length (filter attr_rendered ats).
  Proof.
    induction ats as [|at_ rest IH]; intros inner acc names s r s' H; cbn [class_attrs filter map fold_left] in *.
    - minv_all. cbn. split; [reflexivity|lia].
    - destruct (a_public at_) eqn:Ep; cbn [negb] in H.
      + destruct (match a_type at_ with Some (TTypeVar _ _) => true | _ => false end) eqn:E.
        * assert (Har : attr_rendered at_ = false) by (unfold attr_rendered; now rewrite Ep, E). rewrite Har.
          eapply IH; eassumption.
        * assert (Har : attr_rendered at_ = true) by (unfold attr_rendered; now rewrite Ep, E). rewrite Har.
          minv_all. match goal with H : class_attrs _ _ _ _ _ _ _ _ = Ok _ |- _ => apply IH in H; destruct H as [Ha Hb] end.
          split; [exact Ha|]. rewrite Hb, app_length. cbn. lia.
      + assert (Har : attr_rendered at_ = false) by (unfold attr_rendered; now rewrite Ep). rewrite Har.
        eapply IH; eassumption.
  Qed.

End WithApi.

(* ---------- C10: layout ---------- *)
Lemma lstrip_no_leading cs s c r : lstrip_chars cs s = c :: r -> mem_ch c cs = false.
Proof.
  induction s as [|x xs IH]; cbn; [discriminate|]. destruct (mem_ch x cs) eqn:E; [exact IH|].
  intro H. inversion H; subst. exact E.
Qed.

(* the base name of a stub file is the module (or re-exported declaration) name without leading underscores *)
Theorem entry_path_basename dir name text pk :
  exists d, entry_path (dir, name, text, pk) = path_join d (lstrip_chars US name ++ K".sdsstub") /\
            d = (if pk then join (K"/") (removelast (split_ch "/"%char dir)) else dir).
Proof. eexists. split; reflexivity. Qed.

Theorem basename_no_leading_underscore name c r : lstrip_chars US name ++ K".sdsstub" = c :: r -> c <> "_"%char.
Proof.
  destruct (lstrip_chars US name) as [|x xs] eqn:E; cbn; intro H; inversion H; subst; [discriminate|].
  apply lstrip_no_leading in E. cbn in E. rewrite orb_false_r in E. intro C. subst. discriminate.
Qed.

(* a module stub lies in the directory that spells its module id; a re-exported declaration one level higher *)
Theorem entry_dir_module dir name text : entry_path (dir, name, text, false) = path_join dir (lstrip_chars US name ++ K".sdsstub").
Proof. reflexivity. Qed.

(* ---------- C16: the abstract file system ---------- *)
Lemma fs_lookup_write_same p c fs : fs_lookup p (fs_write p c fs) = Some c.
Proof.
  induction fs as [|[q d] r IH]; cbn; [now rewrite str_eqb_refl|].
  destruct (str_eqb p q) eqn:E; cbn; rewrite E; [reflexivity|exact IH].
Qed.

Lemma fs_lookup_write_other p q c fs : str_eqb q p = false -> fs_lookup q (fs_write p c fs) = fs_lookup q fs.
Proof.
  intro Hn. induction fs as [|[k d] r IH]; cbn; [now rewrite Hn|].
  destruct (str_eqb p k) eqn:E; cbn.
  - apply str_eqb_eq in E. subst k. now rewrite Hn.
  - destruct (str_eqb q k); [reflexivity|exact IH].
Qed.

Lemma fs_write_idem p c fs : fs_write p c (fs_write p c fs) = fs_write p c fs.
Proof.
  induction fs as [|[q d] r IH]; cbn; [now rewrite str_eqb_refl|].
  destruct (str_eqb p q) eqn:E; cbn; rewrite E; [reflexivity|now rewrite IH].
Qed.

(* writing a module stub again (mode "w") leaves the tree as it is *)
Theorem rewrite_same_text p c fs : fs_lookup p fs = Some c -> fs_write p c fs = fs.
Proof.
  induction fs as [|[q d] r IH]; cbn; [discriminate|].
  destruct (str_eqb p q) eqn:E; [intro H; inversion H; subst; apply str_eqb_eq in E; now subst|].
  intro H. now rewrite (IH H).
Qed.

(* ---------- C13: comment assembly ---------- *)
(* every line of the (stripped) description appears in the comment, in order: first line bare, later ones prefixed by
   "<indent> * " (or "<indent> *" when empty) *)
Definition comment_line (indent part : str) : str :=
  match part with [] => indent ++ K" *" | _ => indent ++ K" * " ++ part end.

Theorem description_part_lines description indent first rest :
  split_ch nl (lstrip_chars NL (rstrip_chars NL description)) = first :: rest ->
  docstring_description_part description indent =
  first ++ List.concat (map (fun part => NL ++ comment_line indent part) rest) ++ NL.
Proof.
  intro H. unfold docstring_description_part. rewrite H. unfold cat. f_equal. f_equal. f_equal.
  apply map_ext. intros [|c r]; reflexivity.
Qed.

Theorem description_part_single description indent :
  split_ch nl (lstrip_chars NL (rstrip_chars NL description)) = [lstrip_chars NL (rstrip_chars NL description)] ->
  docstring_description_part description indent = lstrip_chars NL (rstrip_chars NL description) ++ NL.
Proof. intro H. unfold docstring_description_part. rewrite H. cbn. reflexivity. Qed.

(* an empty description produces no comment at all *)
Theorem no_description_no_comment indent : sds_docstring_description [] indent = [].
Proof. reflexivity. Qed.
