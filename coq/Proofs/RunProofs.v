(* Theorems about the whole pipeline (Model/Run.v). *)
From Coq Require Import List Ascii String Bool Arith ZArith Permutation.
From SV Require Import Lib.Str Gen.Tables Model.Types Model.Api Model.Discover Model.Back Model.Layout Model.View Model.Front Model.Run
     Proofs.DiscoverProofs Proofs.WalkProofs.
Import ListNotations.

(* C14: the warning option affects log output only - never the API object (hence the JSON file) and never a stub file *)
Theorem run_warn_pure v nc fs0 w1 w2 : artefacts (run (with_warn v w1) nc fs0) = artefacts (run (with_warn v w2) nc fs0).
Proof.
  unfold run. pose proof (front_warn_pure v w1 w2) as H. unfold output_of in H.
  destruct (front (with_warn v w1)) as [o1|e1], (front (with_warn v w2)) as [o2|e2]; try discriminate; cbn [bind].
  - cbn in H. inversion H as [[HA HF]]. destruct o1 as [a1 f1 l1 m1], o2 as [a2 f2 l2 m2]. cbn [o_api o_flatd o_log o_amb] in *. subst a2 f2.
    destruct (back_run a1 nc fs0) as [[[data s] fs]|]; cbn [bind artefacts]; reflexivity.
  - cbn. congruence.
Qed.

(* C08: the order in which the file system enumerates the files does not matter: only the set of enumerated paths is used *)
Lemma mem_str_perm x l l' : Permutation l l' -> mem_str x l = mem_str x l'.
Proof.
  intro P. destruct (mem_str x l) eqn:E1, (mem_str x l') eqn:E2; try reflexivity.
  - apply mem_str_In in E1. apply (Permutation_in _ P) in E1. apply mem_str_In in E1. congruence.
  - apply mem_str_In in E2. apply (Permutation_in _ (Permutation_sym P)) in E2. apply mem_str_In in E2. congruence.
Qed.

Lemma select_asts_perm graph w w' p p' : Permutation w w' -> Permutation p p' -> select_asts graph w p = select_asts graph w' p'.
Proof.
  intros PW PP. unfold select_asts. destruct (mapM gentry_path graph) as [paths|]; cbn [bind]; [|reflexivity].
  do 3 f_equal; apply filter_ext; intro x; [rewrite (mem_str_perm _ _ _ PP)|rewrite (mem_str_perm _ _ _ PW)]; reflexivity.
Qed.

Definition with_glob (v : view) (g : list str) : view :=
  {| v_package := v_package v; v_test_run := v_test_run v; v_pref_doc := v_pref_doc v; v_warn := v_warn v; v_glob := g;
     v_aliases := v_aliases v; v_graph := v_graph v; v_docs := v_docs v |}.

Theorem front_enumeration_order_free v g g' : Permutation g g' -> front (with_glob v g) = front (with_glob v g').
Proof.
  intro P. unfold front, get_api_files. cbn [with_glob v_test_run v_glob v_graph v_package v_aliases v_docs v_pref_doc v_warn].
  destruct (discover_perm (v_test_run v) g g' P) as [PW PP].
  destruct (discover (v_test_run v) g) as [w p], (discover (v_test_run v) g') as [w' p']. cbn [fst snd] in *.
  destruct w as [|w0 wr], w' as [|w0' wr'].
  - reflexivity.
  - apply Permutation_nil in PW. discriminate.
  - apply Permutation_sym, Permutation_nil in PW. discriminate.
  - rewrite (select_asts_perm (v_graph v) (w0 :: wr) (w0' :: wr') p p' PW PP). reflexivity.
Qed.

Theorem run_enumeration_order_free v nc fs0 g g' : Permutation g g' -> run (with_glob v g) nc fs0 = run (with_glob v g') nc fs0.
Proof. intro P. unfold run. rewrite (front_enumeration_order_free v g g' P). reflexivity. Qed.

(* C15: a module of the API object of a run comes from a file that passed the discovery filter *)
Theorem run_modules_are_filtered v nc fs0 o md :
  run v nc fs0 = Ok o -> In md (api_modules (out_api o)) ->
  exists m, In (GMod m) (v_graph v) /\ m_id md = Front.dots_to_slashes (mf_fullname m) /\
    let '(walkable, packages) := discover (v_test_run v) (v_glob v) in
    ((ends_with t_init_file (mf_path m) = true /\ In (init_package_path (mf_path m)) packages) \/
     (ends_with t_init_file (mf_path m) = false /\ In (mf_path m) walkable)).
Proof.
  unfold run. destruct (front v) as [fo|] eqn:EF; cbn [bind]; [|discriminate].
  destruct (back_run (o_api fo) nc fs0) as [[[data s] fs]|]; cbn [bind]; [|discriminate].
  intro H. inversion H; subst; clear H. cbn [out_api]. apply front_modules_are_filtered. exact EF.
Qed.

(* ======================================================================================================== *)
(* C06 end to end: a literal default of the Python signature is written with the same value                    *)
(* ======================================================================================================== *)
From SV Require Import Model.FrontSmall Proofs.FrontProofs.

(* the Safe-DS spelling of a Python literal default *)
Definition literal_text (v : pyval) : str :=
  match v with
  | None => K"null"
  | Some (DInt z) => Z_dec z
  | Some (DFloat r) => r
  | Some (DBool true) => K"true"
  | Some (DBool false) => K"false"
  | Some (DStr s) => requote_default s
  | Some DNone => K"null"
  | Some DUnknown => K"unknown"
  end.

Lemma requote_quoted s : requote_default (quote_str s) = quoted (escape_string_content s).
Proof.
  unfold requote_default, quote_str. rewrite rev_app_distr. cbn [rev app]. rewrite Ascii.eqb_refl. cbn [andb]. rewrite rev_involutive. reflexivity.
Qed.

Theorem literal_default_end_to_end env d st f fid a p tv lg amb e v s :
  parse_parameter env d st f fid a = Ok (p, tv, lg, amb) -> ar_init a = Some e -> signed_literal e = Some v ->
  p_assigned p <> POSITIONAL_VARARG ->
  p_optional p = true /\ render_default p s = Ok (literal_text v, s) /\
  (forall x, e = EStr x -> literal_text v = quoted (escape_string_content x)).
Proof.
  intros HP HI HS HV. destruct (parse_parameter_shape _ _ _ _ _ _ _ _ _ _ HP) as [_ [_ [_ [HO HD]]]].
  specialize (HD e v HI HS). split; [|split].
  - apply HO. exists e. split; [exact HI|]. rewrite (default_of_literal fid e v HS). cbn. destruct v; [left; discriminate|right; reflexivity].
  - unfold render_default. rewrite HD. destruct v as [dv|]; [destruct dv as [|x|b|z|r|]|]; cbn [dval_of_pyval literal_text]; try reflexivity.
    + destruct (p_assigned p); try reflexivity. exfalso. apply HV. reflexivity.
    + (* an unknown value is never the image of a literal *)
      exfalso. clear -HS. destruct e; cbn in HS; try discriminate;
        repeat (match goal with H : context [if ?b then _ else _] |- _ => destruct b end; try discriminate);
        try (destruct e; cbn in HS; try discriminate; repeat (match goal with H : context [if ?b then _ else _] |- _ => destruct b end; try discriminate)).
  - intros x Hx. subst e. cbn in HS. inversion HS; subst. cbn. apply requote_quoted.
Qed.

(* ======================================================================================================== *)
(* C07 end to end: a function annotated "-> None" is written without results                                  *)
(* ======================================================================================================== *)
From SV Require Import Proofs.MoreProofs.

Theorem none_annotation_end_to_end classes rmap nc env f fid rdocs u rs amb s :
  str_eqb (fn_name f) (K"__init__") = false -> fn_type f = Some (FRet MNone u) ->
  parse_results env f fid rdocs = Ok (rs, amb) ->
  result_string classes rmap nc rs s = Ok ([], s).
Proof.
  intros NI FT HP.
  assert (A : annotated f = Some (MNone, u)) by (unfold annotated; rewrite FT; reflexivity).
  destruct (annotated_results env f fid rdocs MNone u rs amb NI A HP) as [t [a [E [HT _]]]].
  inversion E; subst t a. cbn in HT.
  destruct rs as [|r [|r2 rest]]; cbn in HT; try discriminate. inversion HT as [HR].
  eapply annotated_none_no_results; [exact HR|reflexivity].
Qed.
