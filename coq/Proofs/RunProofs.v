(* Theorems about the whole pipeline (Model/Run.v). *)
From Coq Require Import List Ascii String Bool Arith ZArith Permutation.
From SV Require Import Lib.Str Gen.Tables Model.Types Model.Api Model.Discover Model.Back Model.Layout Model.View Model.Front Model.Run
     Proofs.DiscoverProofs Proofs.WalkProofs.
Import ListNotations.

(* C14: the warning option affects log output only - never the API object (hence the JSON file) and never a stub file *)
Theorem run_warn_pure v nc fs0 w1 w2 : artefacts (run (with_warn v w1) nc fs0) = artefacts (run (with_warn v w2) nc fs0).
Proof.
  unfold run. pose proof (front_warn_pure v w1 w2) as H. unfold output_of in H.
  destruct (front (with_warn v w1)) as [o1|e1], (front (with_warn v w2)) as [o2|e2]; try discriminate; cbn [bind].
  - cbn in H. inversion H as [[HA HF]]. destruct o1 as [a1 f1 l1 m1], o2 as [a2 f2 l2 m2]. cbn [o_api o_flatd o_log o_amb] in *. subst a2 f2.
    destruct (back_run a1 nc fs0) as [[[data s] fs]|]; cbn [bind artefacts]; reflexivity.
  - cbn. congruence.
Qed.

(* C08: the order in which the file system enumerates the files does not matter: only the set of enumerated paths is used *)
Lemma mem_str_perm x l l' : Permutation l l' -> mem_str x l = mem_str x l'.
Proof.
  intro P. destruct (mem_str x l) eqn:E1, (mem_str x l') eqn:E2; try reflexivity.
  - apply mem_str_In in E1. apply (Permutation_in _ P) in E1. apply mem_str_In in E1. congruence.
  - apply mem_str_In in E2. apply (Permutation_in _ (Permutation_sym P)) in E2. apply mem_str_In in E2. congruence.
Qed.

Lemma select_asts_perm graph w w' p p' : Permutation w w' -> Permutation p p' -> select_asts graph w p = select_asts graph w' p'.
Proof.
  intros PW PP. unfold select_asts. destruct (mapM gentry_path graph) as [paths|]; cbn [bind]; [|reflexivity].
  do 3 f_equal; apply filter_ext; intro x; [rewrite (mem_str_perm _ _ _ PP)|rewrite (mem_str_perm _ _ _ PW)]; reflexivity.
Qed.

Definition with_glob (v : view) (g : list str) : view :=
  {| v_package := v_package v; v_test_run := v_test_run v; v_pref_doc := v_pref_doc v; v_warn := v_warn v; v_glob := g;
     v_aliases := v_aliases v; v_graph := v_graph v; v_docs := v_docs v |}.

Theorem front_enumeration_order_free v g g' : Permutation g g' -> front (with_glob v g) = front (with_glob v g').
Proof.
  intro P. unfold front, get_api_files. cbn [with_glob v_test_run v_glob v_graph v_package v_aliases v_docs v_pref_doc v_warn].
  destruct (discover_perm (v_test_run v) g g' P) as [PW PP].
  destruct (discover (v_test_run v) g) as [w p], (discover (v_test_run v) g') as [w' p']. cbn [fst snd] in *.
  destruct w as [|w0 wr], w' as [|w0' wr'].
  - reflexivity.
  - apply Permutation_nil in PW. discriminate.
  - apply Permutation_sym, Permutation_nil in PW. discriminate.
  - rewrite (select_asts_perm (v_graph v) (w0 :: wr) (w0' :: wr') p p' PW PP). reflexivity.
Qed.

Theorem run_enumeration_order_free v nc fs0 g g' : Permutation g g' -> run (with_glob v g) nc fs0 = run (with_glob v g') nc fs0.
Proof. intro P. unfold run. rewrite (front_enumeration_order_free v g g' P). reflexivity. Qed.

(* C15: a module of the API object of a run comes from a file that passed the discovery filter *)
Theorem run_modules_are_filtered v nc fs0 o md :
  run v nc fs0 = Ok o -> In md (api_modules (out_api o)) ->
  exists m, In (GMod m) (v_graph v) /\ m_id md = Front.dots_to_slashes (mf_fullname m) /\
    let '(walkable, packages) := discover (v_test_run v) (v_glob v) in
    ((ends_with t_init_file (mf_path m) = true /\ In (init_package_path (mf_path m)) packages) \/
     (ends_with t_init_file (mf_path m) = false /\ In (mf_path m) walkable)).
Proof.
  unfold run. destruct (front v) as [fo|] eqn:EF; cbn [bind]; [|discriminate].
  destruct (back_run (o_api fo) nc fs0) as [[[data s] fs]|]; cbn [bind]; [|discriminate].
  intro H. inversion H; subst; clear H. cbn [out_api]. apply front_modules_are_filtered. exact EF.
Qed.
