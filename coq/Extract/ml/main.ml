(* reads one case per line on stdin, prints one answer per line *)
let cl (s : string) : char list = List.init (String.length s) (String.get s)
let st (l : char list) : string = String.of_seq (List.to_seq l)
let () =
  try
    while true do
      let line = input_line stdin in
      print_string (st (Model.run_line (cl line)));
      print_newline ()
    done
  with End_of_file -> ()
