From Coq Require Import Extraction ExtrOcamlBasic ExtrOcamlString.
From SV Require Import Driver.Driver.
Extraction Language OCaml.
Extraction "Extract/ml/model.ml" run_line.
