#!/bin/bash
# Build the framework from files on disk only (offline): tables from /repo/src, Coq development, extraction, OCaml driver.
cd "$(dirname "$0")"
export VERIF_REPO=${VERIF_REPO:-/repo}
export PYTHONPATH=$VERIF_REPO/src PYTHONSAFEPATH=1 PYTHONHASHSEED=0 PYTHONDONTWRITEBYTECODE=1
mkdir -p .work evidence replays
/venv/bin/python tools/build.py
